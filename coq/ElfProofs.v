(* C13 / C07: the ELF reader of Elf.v (src/elfinterp.c) against the layout
   specification of ElfSpec.v.

   Main results
     elf_spec_is_pure            elf_interp_spec = AttrProofs.elf_interp_pure on
                                 every byte string
     elf_reader_refines_spec     (a) benign oracles: the reader returns the spec
     elf_reads_in_bounds         (b) every oracle: only bounded reads, slices
                                 inside the file, result None / spec
     elf_spec_total_reject_or_accept   (c)
     elf_image_roundtrip, elf_truncated_rejected, elf_extended_accepted   (d)
     elf_interpreter_refines_spec, handle_open_exec_records_loader        (e)
     Module ElfExample           vm_compute checks on tricky images *)
From K Require Import Str Dec Trace Fs World Progs Elf Handler Hoare SyncProofs BoundsProofs QueueProofs PassProofs
     AttrProofs ElfSpec.
Arguments N.add : simpl never.
Arguments N.sub : simpl never.
Arguments N.mul : simpl never.
Arguments N.of_nat : simpl never.
Arguments N.to_nat : simpl never.
Arguments N.eqb : simpl never.
Arguments N.leb : simpl never.
Arguments N.ltb : simpl never.
Arguments N.min : simpl never.
Arguments N.modulo : simpl never.
Arguments N.div : simpl never.
Arguments N.pow : simpl never.

Local Open Scope N_scope.

(* ====================================================================== *)
(* 1. Lists, bytes, fields                                                *)
(* ====================================================================== *)

Lemma skipn_nth_some {A} (b : list A) : forall k c,
  nth_error b k = Some c -> skipn k b = c :: skipn (S k) b.
Proof.
  induction b as [|x b IH]; intros k c H.
  - destruct k; discriminate H.
  - destruct k as [|k]; cbn [nth_error] in H.
    + injection H as ->. reflexivity.
    + cbn [skipn]. rewrite (IH k c H). reflexivity.
Qed.

Lemma skipn_nth_none {A} (b : list A) : forall k, nth_error b k = None -> skipn k b = [].
Proof.
  induction b as [|x b IH]; intros k H.
  - destruct k; reflexivity.
  - destruct k as [|k]; cbn [nth_error] in H; [discriminate H|].
    cbn [skipn]. apply IH. exact H.
Qed.

Lemma skipn_add {A} (b : list A) : forall p o, skipn o (skipn p b) = skipn (p + o) b.
Proof.
  induction b as [|x b IH]; intros p o.
  - rewrite !skipn_nil. reflexivity.
  - destruct p as [|p]; [reflexivity|]. cbn [skipn Nat.add]. apply IH.
Qed.

Lemma nth_error_skipn' {A} (b : list A) : forall p k, nth_error (skipn p b) k = nth_error b (p + k).
Proof.
  induction b as [|x b IH]; intros p k.
  - rewrite skipn_nil. destruct k, p; reflexivity.
  - destruct p as [|p]; [reflexivity|]. cbn [skipn Nat.add nth_error]. apply IH.
Qed.

Lemma nth_error_firstn' {A} (b : list A) : forall n k, (k < n)%nat -> nth_error (firstn n b) k = nth_error b k.
Proof.
  induction b as [|x b IH]; intros n k H.
  - rewrite firstn_nil. reflexivity.
  - destruct n as [|n]; [lia|]. destruct k as [|k]; [reflexivity|].
    cbn [firstn nth_error]. apply IH. lia.
Qed.

Lemma firstn_skipn_firstn {A} (x : list A) n o l :
  (o + l <= n)%nat -> firstn l (skipn o (firstn n x)) = firstn l (skipn o x).
Proof.
  intros H. rewrite skipn_firstn_comm, firstn_firstn.
  replace (Nat.min l (n - o)) with l by lia. reflexivity.
Qed.

(* the bytes of the specification are the bytes the program decodes *)
Lemma le_at_field b : forall len off, le_at b off len = field b off len.
Proof.
  unfold field. induction len as [|len IH]; intros off.
  - reflexivity.
  - cbn [le_at]. unfold byte_at. destruct (nth_error b off) as [c|] eqn:E.
    + rewrite (skipn_nth_some b off c E). cbn [firstn le_val]. rewrite IH. reflexivity.
    + rewrite (skipn_nth_none b off E). cbn [firstn le_val]. rewrite IH.
      assert (E' : nth_error b (S off) = None).
      { apply nth_error_None. apply nth_error_None in E. lia. }
      rewrite (skipn_nth_none b (S off) E'). rewrite firstn_nil. reflexivity.
Qed.

Lemma field_slice b p n o l :
  (o + l <= n)%nat -> field (slice b p n) o l = field b (p + o) l.
Proof.
  intros H. unfold field, slice. rewrite firstn_skipn_firstn by exact H.
  rewrite skipn_add. reflexivity.
Qed.

Lemma le_at_slice b p n o l :
  (o + l <= n)%nat -> field (slice b p n) o l = le_at b (p + o) l.
Proof. intros H. rewrite le_at_field. apply field_slice. exact H. Qed.

Lemma byte_at_slice b p n k : (k < n)%nat -> byte_at (slice b p n) k = byte_at b (p + k).
Proof.
  intros H. unfold byte_at, slice. rewrite nth_error_firstn' by exact H.
  rewrite nth_error_skipn'. reflexivity.
Qed.

Lemma slice_length b p n : (p + n <= length b)%nat -> length (slice b p n) = n.
Proof. intros H. unfold slice. rewrite firstn_length, skipn_length. lia. Qed.

Lemma slice_length_le b p n : (length (slice b p n) <= n)%nat.
Proof. unfold slice. rewrite firstn_length. lia. Qed.

(* truncating or extending an image does not change the fields before the cut *)
Lemma byte_at_firstn b n k : (k < n)%nat -> byte_at (firstn n b) k = byte_at b k.
Proof. intros H. unfold byte_at. rewrite nth_error_firstn' by exact H. reflexivity. Qed.

Lemma le_at_firstn b n : forall len off, (off + len <= n)%nat -> le_at (firstn n b) off len = le_at b off len.
Proof.
  induction len as [|len IH]; intros off H; [reflexivity|].
  cbn [le_at]. rewrite byte_at_firstn by lia. rewrite IH by lia. reflexivity.
Qed.

Lemma byte_at_app_l a r k : (k < length a)%nat -> byte_at (a ++ r) k = byte_at a k.
Proof. intros H. unfold byte_at. rewrite nth_error_app1 by exact H. reflexivity. Qed.

Lemma byte_at_app_r a r k : byte_at (a ++ r) (length a + k) = byte_at r k.
Proof.
  unfold byte_at. rewrite nth_error_app2 by lia.
  replace (length a + k - length a)%nat with k by lia. reflexivity.
Qed.

Lemma le_at_app_l a r : forall len off, (off + len <= length a)%nat -> le_at (a ++ r) off len = le_at a off len.
Proof.
  induction len as [|len IH]; intros off H; [reflexivity|].
  cbn [le_at]. rewrite byte_at_app_l by lia. rewrite IH by lia. reflexivity.
Qed.

Lemma le_at_app_r a r : forall len off, le_at (a ++ r) (length a + off) len = le_at r off len.
Proof.
  induction len as [|len IH]; intros off; [reflexivity|].
  cbn [le_at]. rewrite byte_at_app_r. replace (S (length a + off)) with (length a + S off)%nat by lia.
  rewrite IH. reflexivity.
Qed.

(* ---------- C strings ---------- *)

Lemma until_nul_c_string s : until_nul s = c_string s.
Proof.
  induction s as [|c r IH]; [reflexivity|]. cbn [until_nul c_string]. rewrite IH. reflexivity.
Qed.

Lemma last_is_nul_cons c s :
  last_is_nul (c :: s) = match s with [] => N_of_ascii c =? 0 | _ => last_is_nul s end.
Proof.
  unfold last_is_nul. cbn [rev]. destruct s as [|d s]; [reflexivity|].
  destruct (rev (d :: s)) as [|x l] eqn:E.
  - exfalso. apply (f_equal (@length ascii)) in E. rewrite rev_length in E. discriminate E.
  - reflexivity.
Qed.

Lemma last_is_nul_byte s : s <> [] -> last_is_nul s = (byte_at s (length s - 1) =? 0).
Proof.
  induction s as [|c s IH]; intros H; [contradiction|].
  rewrite last_is_nul_cons. destruct s as [|d s]; [reflexivity|].
  rewrite IH by discriminate.
  cbn [length]. replace (S (S (length s)) - 1)%nat with (S (S (length s) - 1)) by lia.
  reflexivity.
Qed.

(* a buffer that ends with a NUL holds the whole C string: reading it from the
   buffer or from the file is the same *)
Lemma c_string_firstn : forall x n, last_is_nul (firstn n x) = true -> c_string (firstn n x) = c_string x.
Proof.
  induction x as [|c x IH]; intros n H.
  - rewrite firstn_nil. reflexivity.
  - destruct n as [|n]; [discriminate H|].
    cbn [firstn c_string]. destruct (N_of_ascii c =? 0) eqn:Ec; [reflexivity|].
    f_equal. apply IH. cbn [firstn] in H. rewrite last_is_nul_cons in H.
    destruct (firstn n x) as [|d l] eqn:Ef; [congruence | exact H].
Qed.

(* ====================================================================== *)
(* 2. What the read loop delivers                                         *)
(* ====================================================================== *)

(* pread_full is "the slice, if it lies inside the file" *)
Lemma pread_full_char b pos want :
  pread_full b pos want =
  if want =? 0 then Some []
  else if pos + want <=? flen b then Some (slice b (N.to_nat pos) (N.to_nat want)) else None.
Proof.
  unfold pread_full, pread, flen, slice.
  destruct (N.eqb_spec want 0) as [E0|E0]; [reflexivity|]. cbv zeta.
  destruct (N.leb_spec (N.of_nat (length b)) pos) as [Hp|Hp].
  - cbn [length]. change (N.of_nat 0 =? 0) with true. cbv iota.
    destruct (N.leb_spec (pos + want) (N.of_nat (length b))) as [H|H]; [lia | reflexivity].
  - rewrite firstn_length, skipn_length.
    replace (N.of_nat (Nat.min (N.to_nat (N.min want (N.of_nat (length b) - pos)))
                               (length b - N.to_nat pos)))
      with (N.min want (N.of_nat (length b) - pos)) by lia.
    destruct (N.eqb_spec (N.min want (N.of_nat (length b) - pos)) 0) as [E1|E1]; [lia|].
    destruct (N.ltb_spec (N.min want (N.of_nat (length b) - pos)) want) as [H1|H1];
      destruct (N.leb_spec (pos + want) (N.of_nat (length b))) as [H|H]; try lia; try reflexivity.
    replace (N.min want (N.of_nat (length b) - pos)) with want by lia. reflexivity.
Qed.

(* the decision taken on a PT_INTERP entry *)
Lemma segment_char b off sz :
  (if off_max <=? off then None
   else if alloc_max <? sz then None
   else match pread_full b off sz with
        | None => None
        | Some s => if last_is_nul s then Some (c_string s) else None
        end) = segment_string b off sz.
Proof.
  unfold segment_string, off_max, alloc_max, two63, two32.
  destruct (N.leb_spec 9223372036854775808 off) as [H1|H1];
    destruct (N.ltb_spec off 9223372036854775808) as [H1'|H1']; try lia; [reflexivity|].
  destruct (N.ltb_spec 4294967296 sz) as [H2|H2];
    destruct (N.leb_spec sz 4294967296) as [H2'|H2']; try lia;
    [destruct (0 <? sz); reflexivity|].
  rewrite pread_full_char.
  destruct (N.eqb_spec sz 0) as [E0|E0];
    destruct (N.ltb_spec 0 sz) as [H3|H3]; try lia; [reflexivity|].
  cbn [andb].
  destruct (N.leb_spec (off + sz) (flen b)) as [H4|H4]; [|reflexivity].
  unfold flen in H4.
  set (s := slice b (N.to_nat off) (N.to_nat sz)).
  assert (Hlen : length s = N.to_nat sz) by (apply slice_length; lia).
  assert (Hne : s <> []).
  { intros E. rewrite E in Hlen. cbn [length] in Hlen. lia. }
  rewrite (last_is_nul_byte s Hne). rewrite Hlen.
  unfold s at 1. rewrite byte_at_slice by lia.
  replace (N.to_nat off + (N.to_nat sz - 1))%nat with (N.to_nat (off + sz - 1)) by lia.
  destruct (byte_at b (N.to_nat (off + sz - 1)) =? 0) eqn:Eb; [|reflexivity].
  f_equal. rewrite (until_nul_c_string (skipn (N.to_nat off) b)). unfold s, slice. apply c_string_firstn.
  fold (slice b (N.to_nat off) (N.to_nat sz)). fold s.
  rewrite (last_is_nul_byte s Hne), Hlen. unfold s. rewrite byte_at_slice by lia.
  replace (N.to_nat off + (N.to_nat sz - 1))%nat with (N.to_nat (off + sz - 1)) by lia. exact Eb.
Qed.

(* the walk over the program headers *)
Lemma scan_phdrs_pure b : forall n k,
  phdr_pure n b (phdr_pos b k) = scan_phdrs b k n.
Proof.
  induction n as [|n IH]; intros k; [reflexivity|].
  cbn [phdr_pure scan_phdrs]. rewrite pread_full_char.
  change (56 =? 0) with false. cbv iota.
  unfold phdr_inside. change phdr_size with 56 at 1. change (N.to_nat 56) with 56%nat.
  destruct (phdr_pos b k + 56 <=? flen b); [|reflexivity].
  rewrite !le_at_slice by lia. rewrite Nat.add_0_r.
  fold (p_type b k). fold (p_offset b k). fold (p_filesz b k).
  unfold pt_interp. destruct (p_type b k =? 3).
  - cbv zeta. apply segment_char.
  - rewrite <- IH. f_equal. unfold phdr_pos, phdr_size. lia.
Qed.

Lemma ascii_eqb_N c n : n < 256 -> Ascii.eqb c (ascii_of_N n) = (N_of_ascii c =? n).
Proof.
  intros H. destruct (Ascii.eqb_spec c (ascii_of_N n)) as [E|E]; symmetry.
  - apply N.eqb_eq. subst c. apply N_ascii_embedding. exact H.
  - apply N.eqb_neq. intros E'. apply E. subst n. symmetry. apply ascii_N_embedding.
Qed.

Lemma magic_char b : (4 <= length b)%nat -> str_eqb (firstn 4 b) elf_magic = has_magic b.
Proof.
  intros H. destruct b as [|c0 [|c1 [|c2 [|c3 r]]]]; cbn [length] in H; try lia.
  unfold has_magic, byte_at, elf_magic. cbn [firstn str_eqb nth_error].
  change "E"%char with (ascii_of_N 69). change "L"%char with (ascii_of_N 76).
  change "F"%char with (ascii_of_N 70).
  rewrite !ascii_eqb_N by lia. rewrite andb_true_r, !andb_assoc. reflexivity.
Qed.

(* ---------- the specification is what the program computes ---------- *)

Theorem elf_spec_is_pure b : elf_interp_spec b = elf_interp_pure b.
Proof.
  unfold elf_interp_spec, elf_interp_pure. rewrite pread_full_char.
  change (64 =? 0) with false. cbv iota. unfold ehdr_size. rewrite N.add_0_l.
  destruct (N.leb_spec 64 (flen b)) as [H|H]; [|reflexivity].
  unfold flen in H. cbv zeta. cbn [andb].
  change (N.to_nat 0) with 0%nat. change (N.to_nat 64) with 64%nat.
  rewrite !le_at_slice by lia. cbn [Nat.add].
  fold (e_phoff b). fold (e_phnum b).
  unfold slice. cbn [skipn]. rewrite firstn_firstn. change (Nat.min 4 64) with 4%nat.
  rewrite magic_char by lia.
  unfold off_max, two63.
  destruct (has_magic b); cbn [negb andb orb]; [|reflexivity].
  destruct (e_phoff b =? 0); cbn [negb andb orb]; [reflexivity|].
  destruct (N.leb_spec 9223372036854775808 (e_phoff b)) as [H1|H1];
    destruct (N.ltb_spec (e_phoff b) 9223372036854775808) as [H1'|H1']; try lia; [reflexivity|].
  rewrite <- scan_phdrs_pure. f_equal. unfold phdr_pos. lia.
Qed.
Print Assumptions elf_spec_is_pure.

(* ====================================================================== *)
(* 3. The relational reading of the specification                         *)
(* ====================================================================== *)

Lemma segment_string_some b off sz s :
  segment_string b off sz = Some s ->
  off < two63 /\ 0 < sz /\ sz <= two32 /\ off + sz <= flen b /\
  let seg := slice b (N.to_nat off) (N.to_nat sz) in
  length seg = N.to_nat sz /\ last_is_nul seg = true /\ s = c_string seg /\
  s = until_nul (skipn (N.to_nat off) b).
Proof.
  intros H. assert (H' := H). rewrite <- segment_char in H'. unfold segment_string in H.
  destruct (N.ltb_spec off two63) as [H1|H1]; [|discriminate H].
  destruct (N.ltb_spec 0 sz) as [H2|H2]; [|discriminate H].
  destruct (N.leb_spec sz two32) as [H3|H3]; [|discriminate H].
  destruct (N.leb_spec (off + sz) (flen b)) as [H4|H4]; [|discriminate H].
  cbn [andb] in H.
  destruct (byte_at b (N.to_nat (off + sz - 1)) =? 0); [|discriminate H].
  injection H as Hs.
  repeat (split; [assumption|]). cbv zeta.
  split; [apply slice_length; unfold flen in H4; lia|].
  destruct (off_max <=? off); [discriminate H'|].
  destruct (alloc_max <? sz); [discriminate H'|].
  rewrite pread_full_char in H'.
  destruct (N.eqb_spec sz 0) as [E0|E0]; [lia|].
  destruct (off + sz <=? flen b); [|discriminate H'].
  destruct (last_is_nul (slice b (N.to_nat off) (N.to_nat sz))); [|discriminate H'].
  injection H' as H'. split; [reflexivity|]. split; [symmetry; exact H' | symmetry; exact Hs].
Qed.

(* the scan stops at the deciding entry *)
Lemma scan_decides b : forall n k j,
  (k <= j < k + n)%nat ->
  (forall x, (k <= x <= j)%nat -> phdr_inside b x = true) ->
  (forall x, (k <= x < j)%nat -> p_type b x <> pt_interp) ->
  p_type b j = pt_interp ->
  scan_phdrs b k n = segment_string b (p_offset b j) (p_filesz b j).
Proof.
  induction n as [|n IH]; intros k j Hj Hin Hty Hdec; [lia|].
  cbn [scan_phdrs]. rewrite (Hin k) by lia.
  destruct (Nat.eq_dec k j) as [E|E].
  - subst j. rewrite Hdec, N.eqb_refl. reflexivity.
  - destruct (N.eqb_spec (p_type b k) pt_interp) as [E1|E1].
    + exfalso. apply (Hty k); [lia | exact E1].
    + apply IH; [lia | | | exact Hdec]; intros x Hx; [apply Hin | apply Hty]; lia.
Qed.

Lemma scan_some b : forall n k s,
  scan_phdrs b k n = Some s ->
  exists j, (k <= j < k + n)%nat /\
    (forall x, (k <= x <= j)%nat -> phdr_inside b x = true) /\
    (forall x, (k <= x < j)%nat -> p_type b x <> pt_interp) /\
    p_type b j = pt_interp /\
    segment_string b (p_offset b j) (p_filesz b j) = Some s.
Proof.
  induction n as [|n IH]; intros k s H; [discriminate H|].
  cbn [scan_phdrs] in H. destruct (phdr_inside b k) eqn:Ein; [|discriminate H].
  destruct (N.eqb_spec (p_type b k) pt_interp) as [E1|E1].
  - exists k. split; [lia|]. split; [intros x Hx; replace x with k by lia; exact Ein|].
    split; [intros x Hx; lia|]. split; [exact E1 | exact H].
  - destruct (IH (S k) s H) as (j & Hj & Hin & Hty & Hdec & Hseg).
    exists j. split; [lia|]. split; [|split; [|split; assumption]].
    + intros x Hx. destruct (Nat.eq_dec x k) as [->|Ne]; [exact Ein | apply Hin; lia].
    + intros x Hx. destruct (Nat.eq_dec x k) as [->|Ne]; [exact E1 | apply Hty; lia].
Qed.

Theorem elf_spec_iff b s :
  elf_interp_spec b = Some s <->
  well_formed_header b /\
  exists j, decides b j /\ segment_string b (p_offset b j) (p_filesz b j) = Some s.
Proof.
  unfold elf_interp_spec, well_formed_header, decides. split.
  - intros H.
    destruct (N.leb_spec ehdr_size (flen b)) as [H1|H1]; [|discriminate H].
    destruct (has_magic b); [|discriminate H].
    destruct (N.eqb_spec (e_phoff b) 0) as [H2|H2]; [discriminate H|].
    destruct (N.ltb_spec (e_phoff b) two63) as [H3|H3]; [|discriminate H].
    cbn [andb negb] in H.
    destruct (scan_some b _ _ _ H) as (j & Hj & Hin & Hty & Hdec & Hseg).
    split; [auto|]. exists j. split; [|exact Hseg].
    split; [lia|]. split; [intros k Hk; apply Hin; lia|].
    split; [intros k Hk; apply Hty; lia | exact Hdec].
  - intros ((H1 & H2 & H3 & H4) & j & (Hj & Hin & Hty & Hdec) & Hseg).
    destruct (N.leb_spec ehdr_size (flen b)) as [H1'|H1']; [|lia].
    rewrite H2.
    destruct (N.eqb_spec (e_phoff b) 0) as [H3'|H3']; [contradiction|].
    destruct (N.ltb_spec (e_phoff b) two63) as [H4'|H4']; [|lia].
    cbn [andb negb]. rewrite <- Hseg.
    apply scan_decides; [lia | | | exact Hdec]; intros x Hx; [apply Hin | apply Hty]; lia.
Qed.
Print Assumptions elf_spec_iff.

(* (c) every byte string is rejected, or accepted with a string that is the
   NUL-free proper prefix of a NUL-terminated slice of the file of at most 2^32
   bytes *)
Theorem elf_spec_in_buffer b s :
  elf_interp_spec b = Some s ->
  exists off sz : N,
    off < two63 /\ 0 < sz /\ sz <= two32 /\ off + sz <= flen b /\
    let seg := slice b (N.to_nat off) (N.to_nat sz) in
    length seg = N.to_nat sz /\ last_is_nul seg = true /\ s = c_string seg /\
    (exists rest, seg = s ++ rest) /\ (length s < length seg)%nat /\
    Forall (fun c => (N_of_ascii c =? 0) = false) s.
Proof.
  intros H. apply elf_spec_iff in H. destruct H as (_ & j & _ & Hseg).
  destruct (segment_string_some _ _ _ _ Hseg) as (H1 & H2 & H3 & H4 & H5 & H6 & H7 & _).
  exists (p_offset b j), (p_filesz b j). repeat (split; [assumption|]).
  cbv zeta. rewrite H7.
  split; [apply c_string_prefix|]. split; [apply c_string_shorter; exact H6 | apply c_string_no_nul].
Qed.

Theorem elf_spec_total_reject_or_accept b :
  elf_interp_spec b = None \/
  exists s, elf_interp_spec b = Some s /\
            Forall (fun c => (N_of_ascii c =? 0) = false) s /\
            N.of_nat (length s) < two32 /\ (length s < length b)%nat.
Proof.
  destruct (elf_interp_spec b) as [s|] eqn:E; [right | left; reflexivity].
  exists s. split; [reflexivity|].
  destruct (elf_spec_in_buffer b s E) as (off & sz & H1 & H2 & H3 & H4 & H5 & _ & _ & _ & H9 & H10).
  cbv zeta in H5, H9. unfold flen in H4.
  split; [exact H10|]. split; lia.
Qed.
Print Assumptions elf_spec_in_buffer.
Print Assumptions elf_spec_total_reject_or_accept.

(* ====================================================================== *)
(* 4. The reader under EVERY oracle                                       *)
(* ====================================================================== *)

Local Close Scope N_scope.

(* the oracle lets call k run (it may "shorten" it: a read ignores that) *)
Definition runs (o : oracle) (k : nat) : Prop :=
  match o k with FFail _ | FCrash => False | _ => True end.

Lemma fault_cases o k : runs o k \/ (exists e, o k = FFail e) \/ o k = FCrash.
Proof. unfold runs. destruct (o k); eauto. Qed.

Lemma benign_runs o k : benign o -> runs o k.
Proof.
  intros H. unfold runs. destruct (H k) as [E|(n & _ & [E|E])]; rewrite E; exact I.
Qed.

(* a logged call of the reader: read(fd, buf, n) with n at most the largest
   allocation (64 and 56 for the two headers, p_filesz <= 2^32 for the
   segment), which failed or returned between 0 and n bytes *)
Definition read_entry (cr : call * ret) : Prop :=
  exists n : N, fst cr = CReadN n /\ (n <= two32)%N /\
    ((exists e, snd cr = RFault e) \/ (exists k : Z, snd cr = RInt k /\ (0 <= k <= Z.of_N n)%Z)).

(* only reads happened between w and w': the file system and the clock are the
   same, the log grew by read entries, the counter by their number *)
Definition reads_only (w w' : world) : Prop :=
  w_fs w' = w_fs w /\ w_clock w' = w_clock w /\
  exists l, w_log w' = l ++ w_log w /\ w_n w' = length l + w_n w /\ Forall read_entry l.

Lemma reads_only_refl w : reads_only w w.
Proof. split; [reflexivity|]. split; [reflexivity|]. exists []. split; [reflexivity|]. split; [reflexivity | constructor]. Qed.

Lemma reads_only_trans a b c : reads_only a b -> reads_only b c -> reads_only a c.
Proof.
  intros (F1 & C1 & l1 & L1 & N1 & A1) (F2 & C2 & l2 & L2 & N2 & A2).
  split; [congruence|]. split; [congruence|]. exists (l2 ++ l1).
  split; [rewrite L2, L1; apply app_assoc|].
  split; [rewrite app_length; lia | apply Forall_app; split; assumption].
Qed.

Lemma reads_only_n a b : reads_only a b -> w_n a <= w_n b.
Proof. intros (_ & _ & l & _ & N1 & _). lia. Qed.

(* How a run of a reader that computes [v] on fault-free runs can end:
   1. every call ran: the value is v, the trace is untouched;
   2. the last call failed with e (all earlier ones ran): the answer is None
      and errno e is on the trace;
   3. the process died at the next call (all earlier ones ran). *)
Definition outcome {A} (o : oracle) (w : world) (v : option A) (res : option (option A) * world) : Prop :=
  let r := fst res in
  let w' := snd res in
  reads_only w w' /\
  ( (r = Some v /\ w_tr w' = w_tr w /\ (forall k, w_n w <= k < w_n w' -> runs o k))
  \/ (r = Some None /\ w_n w < w_n w' /\
      (exists e, w_tr w' = tr_push (FErrno e) (w_tr w) /\ o (pred (w_n w')) = FFail e) /\
      (forall k, w_n w <= k < pred (w_n w') -> runs o k))
  \/ (r = None /\ w_tr w' = w_tr w /\ o (w_n w') = FCrash /\
      (forall k, w_n w <= k < w_n w' -> runs o k)) ).

Lemma outcome_ret {A} o w (v : option A) : outcome o w v (ret_ v o w).
Proof.
  split; [apply reads_only_refl|]. left. cbn [fst snd ret_].
  split; [reflexivity|]. split; [reflexivity|]. intros k Hk. lia.
Qed.

Lemma outcome_bind {A B} o w (m : M (option A)) (k : option A -> M (option B)) (v : option A) (vb : option B) :
  outcome o w v (m o w) ->
  (forall o' w', k None o' w' = (Some None, w')) ->
  (v = None -> vb = None) ->
  (forall a w1, v = Some a -> w_fs w1 = w_fs w -> outcome o w1 vb (k (Some a) o w1)) ->
  outcome o w vb (bind m k o w).
Proof.
  intros Hm Hnone Hv Hk. unfold bind. destruct (m o w) as [r w1].
  destruct Hm as (R1 & Hc). cbn [fst snd] in R1, Hc.
  destruct Hc as [(-> & T1 & Q1) | [(-> & Lt1 & (e & T1 & Oe) & Q1) | (-> & T1 & Oc & Q1)]].
  - destruct v as [a|].
    + assert (F1 : w_fs w1 = w_fs w) by (destruct R1 as (F & _); exact F).
      specialize (Hk a w1 eq_refl F1). destruct (k (Some a) o w1) as [r2 w2].
      destruct Hk as (R2 & Hc2). cbn [fst snd] in R2, Hc2.
      assert (N1 := reads_only_n _ _ R1). assert (N2 := reads_only_n _ _ R2).
      split; [exact (reads_only_trans _ _ _ R1 R2)|]. cbn [fst snd].
      destruct Hc2 as [(-> & T2 & Q2) | [(-> & Lt2 & (e & T2 & Oe) & Q2) | (-> & T2 & Oc & Q2)]].
      * left. split; [reflexivity|]. split; [congruence|].
        intros x Hx. destruct (Nat.lt_ge_cases x (w_n w1)); [apply Q1 | apply Q2]; lia.
      * right; left. split; [reflexivity|]. split; [lia|].
        split; [exists e; split; [congruence | exact Oe]|].
        intros x Hx. destruct (Nat.lt_ge_cases x (w_n w1)); [apply Q1 | apply Q2]; lia.
      * right; right. split; [reflexivity|]. split; [congruence|]. split; [exact Oc|].
        intros x Hx. destruct (Nat.lt_ge_cases x (w_n w1)); [apply Q1 | apply Q2]; lia.
    + rewrite Hnone. rewrite (Hv eq_refl). split; [exact R1|]. left. cbn [fst snd].
      split; [reflexivity|]. split; assumption.
  - rewrite Hnone. split; [exact R1|]. right; left. cbn [fst snd].
    split; [reflexivity|]. split; [exact Lt1|]. split; [exists e; split; assumption | exact Q1].
  - split; [exact R1|]. right; right. cbn [fst snd].
    split; [reflexivity|]. split; [exact T1|]. split; assumption.
Qed.

(* ---------- one read ---------- *)

Local Open Scope N_scope.

(* the bytes a read delivers are a slice of the file that lies inside the file,
   never longer than what was asked for *)
Lemma pread_in_file b pos want :
  N.of_nat (length (pread b pos want)) <= want /\
  (pread b pos want = [] \/
   pos + N.of_nat (length (pread b pos want)) <= flen b /\
   pread b pos want = slice b (N.to_nat pos) (length (pread b pos want))).
Proof.
  unfold pread, flen, slice.
  destruct (N.leb_spec (N.of_nat (length b)) pos) as [Hp|Hp].
  - cbn [length]. split; [lia | left; reflexivity].
  - rewrite firstn_length, skipn_length. split; [lia|]. right. split; [lia|].
    f_equal. lia.
Qed.

Local Close Scope N_scope.

Lemma k_read_at_crash i pos want o w :
  o (w_n w) = FCrash -> k_read_at i pos want o w = (None, w).
Proof. intros E. unfold k_read_at, sys. rewrite E. reflexivity. Qed.

Lemma k_read_at_fail i pos want o w e :
  o (w_n w) = FFail e ->
  k_read_at i pos want o w = (Some (inr e), after_call (CReadN want) (RFault e) (w_fs w) w).
Proof. intros E. unfold k_read_at, sys. rewrite E. reflexivity. Qed.

Lemma k_read_at_runs i pos want o w :
  runs o (w_n w) ->
  k_read_at i pos want o w =
  (Some (inl (pread (f_bytes (get_file (w_fs w) i)) pos want)),
   after_call (CReadN want)
              (RInt (Z.of_nat (length (pread (f_bytes (get_file (w_fs w) i)) pos want)))) (w_fs w) w).
Proof. unfold runs, k_read_at, sys. destruct (o (w_n w)); intros H; try contradiction; reflexivity. Qed.

(* what k_read_at guarantees by construction, for every oracle *)
Theorem k_read_at_in_file i pos want o w r w' :
  k_read_at i pos want o w = (r, w') ->
  let b := f_bytes (get_file (w_fs w) i) in
  match r with
  | None => w' = w
  | Some (inr e) => w' = after_call (CReadN want) (RFault e) (w_fs w) w
  | Some (inl bs) =>
      w' = after_call (CReadN want) (RInt (Z.of_nat (length bs))) (w_fs w) w /\
      (N.of_nat (length bs) <= want)%N /\
      (bs = [] \/ (pos + N.of_nat (length bs) <= flen b)%N /\ bs = slice b (N.to_nat pos) (length bs))
  end.
Proof.
  intros E b. destruct (fault_cases o (w_n w)) as [H|[(e & H)|H]].
  - rewrite (k_read_at_runs i pos want o w H) in E. injection E as <- <-.
    split; [reflexivity|]. apply pread_in_file.
  - rewrite (k_read_at_fail i pos want o w e H) in E. injection E as <- <-. reflexivity.
  - rewrite (k_read_at_crash i pos want o w H) in E. injection E as <- <-. reflexivity.
Qed.

Lemma read_entry_fault want e : (want <= two32)%N -> read_entry (CReadN want, RFault e).
Proof. intros H. exists want. split; [reflexivity|]. split; [exact H|]. left. exists e. reflexivity. Qed.

Lemma read_entry_int want b pos :
  (want <= two32)%N -> read_entry (CReadN want, RInt (Z.of_nat (length (pread b pos want)))).
Proof.
  intros H. exists want. split; [reflexivity|]. split; [exact H|]. right. eexists. split; [reflexivity|].
  destruct (pread_in_file b pos want) as (Hl & _). lia.
Qed.

Lemma reads_only_after_call w c r : read_entry (c, r) -> reads_only w (after_call c r (w_fs w) w).
Proof.
  intros H. split; [reflexivity|]. split; [reflexivity|]. exists [(c, r)].
  split; [reflexivity|]. split; [reflexivity|]. constructor; [exact H | constructor].
Qed.

Lemma reads_only_upd_tr w w' t : reads_only w w' -> reads_only w (upd_tr t w').
Proof. intros H. exact H. Qed.

(* ---------- the read loop ---------- *)

Lemma read_full_outcome i pos want o w :
  (want <= two32)%N ->
  outcome o w (pread_full (f_bytes (get_file (w_fs w) i)) pos want) (read_full i pos want o w).
Proof.
  intros Hw. unfold read_full, pread_full.
  destruct (N.eqb want 0); [apply outcome_ret|].
  set (b := f_bytes (get_file (w_fs w) i)).
  destruct (fault_cases o (w_n w)) as [H|[(e & H)|H]].
  2:{ (* the first read fails *)
      rewrite (bind_some _ _ _ _ _ _ (k_read_at_fail i pos want o w e H)).
      split; [apply reads_only_after_call, read_entry_fault; exact Hw|].
      right; left. cbn. split; [reflexivity|]. split; [lia|].
      split; [exists e; split; [reflexivity | exact H]|]. intros k Hk. lia. }
  2:{ (* the process dies at the first read *)
      unfold bind. rewrite (k_read_at_crash i pos want o w H).
      split; [apply reads_only_refl|]. right; right. cbn [fst snd].
      split; [reflexivity|]. split; [reflexivity|]. split; [exact H|]. intros k Hk. lia. }
  rewrite (bind_some _ _ _ _ _ _ (k_read_at_runs i pos want o w H)). fold b. cbv zeta.
  set (r := pread b pos want).
  set (w1 := after_call (CReadN want) (RInt (Z.of_nat (length r))) (w_fs w) w).
  assert (R1 : reads_only w w1) by (apply reads_only_after_call, read_entry_int; exact Hw).
  assert (Q1 : forall k, w_n w <= k < w_n w1 -> runs o k).
  { intros k Hk. cbn in Hk. replace k with (w_n w) by lia. exact H. }
  destruct (N.eqb (N.of_nat (length r)) 0).
  { split; [exact R1|]. left. cbn [fst snd ret_]. split; [reflexivity|]. split; [reflexivity | exact Q1]. }
  destruct (N.ltb (N.of_nat (length r)) want).
  2:{ split; [exact R1|]. left. cbn [fst snd ret_]. split; [reflexivity|]. split; [reflexivity | exact Q1]. }
  (* a short read: one more read, which decides nothing but is issued *)
  destruct (fault_cases o (w_n w1)) as [H2|[(e & H2)|H2]].
  - rewrite (bind_some _ _ _ _ _ _ (k_read_at_runs i _ want o w1 H2)).
    split.
    + eapply reads_only_trans; [exact R1|]. apply reads_only_after_call, read_entry_int; exact Hw.
    + left. cbn [fst snd ret_]. split; [reflexivity|]. split; [reflexivity|].
      intros k Hk. cbn in Hk. destruct (Nat.eq_dec k (w_n w)) as [->|Ne]; [exact H|].
      replace k with (w_n w1) by (cbn; lia). exact H2.
  - rewrite (bind_some _ _ _ _ _ _ (k_read_at_fail i _ want o w1 e H2)).
    split.
    + eapply reads_only_trans; [exact R1|]. apply reads_only_after_call, read_entry_fault; exact Hw.
    + right; left. cbn. split; [reflexivity|]. split; [lia|].
      split; [exists e; split; [reflexivity | exact H2]|].
      intros k Hk. replace k with (w_n w) by lia. exact H.
  - unfold bind. rewrite (k_read_at_crash i _ want o w1 H2).
    split; [exact R1|]. right; right. cbn [fst snd].
    split; [reflexivity|]. split; [reflexivity|]. split; [exact H2 | exact Q1].
Qed.

(* ---------- the walk and the whole reader ---------- *)

Local Open Scope N_scope.

Lemma phdr_loop_outcome i o : forall count pos w,
  outcome o w (phdr_pure count (f_bytes (get_file (w_fs w) i)) pos) (phdr_loop count i pos o w).
Proof.
  induction count as [|count IH]; intros pos w; cbn [phdr_loop phdr_pure]; [apply outcome_ret|].
  set (b := f_bytes (get_file (w_fs w) i)).
  apply (outcome_bind o w (read_full i pos 56) _ (pread_full b pos 56)).
  - apply read_full_outcome. unfold two32. lia.
  - reflexivity.
  - intros E. rewrite E. reflexivity.
  - intros p w1 E F1. rewrite E.
    assert (Eb : f_bytes (get_file (w_fs w1) i) = b) by (unfold b; rewrite F1; reflexivity).
    destruct (field p 0 4 =? 3).
    + cbv zeta. destruct (off_max <=? field p 8 8); [apply outcome_ret|].
      destruct (N.ltb_spec alloc_max (field p 32 8)) as [Ha|Ha]; [apply outcome_ret|].
      apply (outcome_bind o w1 (read_full i (field p 8 8) (field p 32 8)) _
                          (pread_full b (field p 8 8) (field p 32 8))).
      * rewrite <- Eb. apply read_full_outcome. exact Ha.
      * reflexivity.
      * intros E2. rewrite E2. reflexivity.
      * intros s w2 E2 _. rewrite E2. destruct (last_is_nul s); apply outcome_ret.
    + rewrite <- Eb. apply IH.
Qed.

Lemma get_elf_interpreter_raw_outcome i o w :
  outcome o w (elf_interp_spec (f_bytes (get_file (w_fs w) i))) (get_elf_interpreter_raw i o w).
Proof.
  rewrite elf_spec_is_pure. unfold get_elf_interpreter_raw, elf_interp_pure.
  set (b := f_bytes (get_file (w_fs w) i)).
  apply (outcome_bind o w (read_full i 0 64) _ (pread_full b 0 64)).
  - apply read_full_outcome. unfold two32. lia.
  - reflexivity.
  - intros E. rewrite E. reflexivity.
  - intros hd w1 E F1. rewrite E. cbv zeta.
    destruct (negb (str_eqb (firstn 4 hd) elf_magic) || (field hd 32 8 =? 0) || (off_max <=? field hd 32 8));
      [apply outcome_ret|].
    replace b with (f_bytes (get_file (w_fs w1) i)) by (unfold b; rewrite F1; reflexivity).
    apply phdr_loop_outcome.
Qed.

Local Close Scope N_scope.

(* ====================================================================== *)
(* 5. (a) and (b)                                                         *)
(* ====================================================================== *)

(* (a) Under every benign oracle the reader returns the specification's answer
   for the bytes of the file behind the descriptor; the file system, the trace
   and the clock are untouched, only read calls were logged. *)
Theorem elf_reader_refines_spec o w i b :
  benign o -> f_bytes (get_file (w_fs w) i) = b ->
  exists w', get_elf_interpreter_raw i o w = (Some (elf_interp_spec b), w') /\
             w_fs w' = w_fs w /\ w_tr w' = w_tr w /\ w_clock w' = w_clock w /\
             exists l, w_log w' = l ++ w_log w /\ w_n w' = length l + w_n w /\ Forall read_entry l.
Proof.
  intros H <-. assert (Ho := get_elf_interpreter_raw_outcome i o w).
  destruct (get_elf_interpreter_raw i o w) as [r w']. exists w'.
  destruct Ho as ((F & C & L) & Hc). cbn [fst snd] in Hc.
  destruct Hc as [(-> & T & _) | [(_ & _ & (e & _ & Oe) & _) | (_ & _ & Oc & _)]].
  - split; [reflexivity|]. repeat (split; [assumption|]). exact L.
  - exfalso. assert (R := benign_runs o (pred (w_n w')) H). unfold runs in R. rewrite Oe in R. exact R.
  - exfalso. assert (R := benign_runs o (w_n w') H). unfold runs in R. rewrite Oc in R. exact R.
Qed.
Print Assumptions elf_reader_refines_spec.

(* (b) EVERY oracle, faults and crashes included.
   - the run only issues read(fd, buf, n) calls with n <= 2^32 (the size of the
     object read into), each returning between 0 and n bytes or failing
     (reads_only / read_entry); the file system and the clock are untouched;
   - the run ends in one of three ways (outcome): the specification's answer
     with the trace untouched; None with the errno of the failed read on the
     trace; the process died;
   - a returned string is the specification's answer, and it is the NUL-free
     proper prefix of a NUL-terminated slice of the file of p_filesz <= 2^32
     bytes: strlen / realpath on the buffer stay inside the allocation. *)
Theorem elf_reads_in_bounds o w i b r w' :
  f_bytes (get_file (w_fs w) i) = b ->
  get_elf_interpreter_raw i o w = (r, w') ->
  outcome o w (elf_interp_spec b) (r, w') /\
  (r = None \/ r = Some None \/ r = Some (elf_interp_spec b)) /\
  (forall s, r = Some (Some s) ->
     elf_interp_spec b = Some s /\ w_tr w' = w_tr w /\
     exists off sz : N,
       (off < two63 /\ 0 < sz /\ sz <= two32 /\ off + sz <= flen b)%N /\
       let seg := slice b (N.to_nat off) (N.to_nat sz) in
       length seg = N.to_nat sz /\ last_is_nul seg = true /\ s = c_string seg /\
       (exists rest, seg = s ++ rest) /\ length s < length seg /\
       Forall (fun c => (N_of_ascii c =? 0)%N = false) s).
Proof.
  intros <- E. assert (Ho := get_elf_interpreter_raw_outcome i o w). rewrite E in Ho.
  split; [exact Ho|]. destruct Ho as (_ & Hc). cbn [fst snd] in Hc. split.
  - destruct Hc as [(-> & _) | [(-> & _) | (-> & _)]]; auto.
  - intros s ->.
    destruct Hc as [(Er & T & _) | [(Er & _) | (Er & _)]]; try discriminate Er.
    injection Er as Er. symmetry in Er. split; [exact Er|]. split; [exact T|].
    destruct (elf_spec_in_buffer _ s Er) as (off & sz & H1 & H2 & H3 & H4 & H5).
    exists off, sz. split; [auto | exact H5].
Qed.
Print Assumptions elf_reads_in_bounds.

(* the logged calls, spelled out *)
Corollary elf_only_bounded_reads o w i r w' :
  get_elf_interpreter_raw i o w = (r, w') ->
  w_fs w' = w_fs w /\ w_clock w' = w_clock w /\
  exists l, w_log w' = l ++ w_log w /\ w_n w' = length l + w_n w /\
    Forall (fun cr => exists n : N, fst cr = CReadN n /\ (n <= 4294967296)%N /\
                        ((exists e, snd cr = RFault e) \/
                         (exists k : Z, snd cr = RInt k /\ (0 <= k <= Z.of_N n)%Z))) l.
Proof.
  intros E. destruct (elf_reads_in_bounds o w i _ r w' eq_refl E) as ((R & _) & _). exact R.
Qed.
Print Assumptions elf_only_bounded_reads.

(* a failed read can only turn the answer into None, and it sets the trace *)
Corollary elf_failure_sets_trace o w i b r w' :
  f_bytes (get_file (w_fs w) i) = b ->
  get_elf_interpreter_raw i o w = (r, w') ->
  r <> None -> r <> Some (elf_interp_spec b) ->
  r = Some None /\ tr_ok (w_tr w') = false /\
  exists e, w_tr w' = tr_push (FErrno e) (w_tr w) /\ o (pred (w_n w')) = FFail e.
Proof.
  intros Hb E N1 N2. destruct (elf_reads_in_bounds o w i b r w' Hb E) as ((_ & Hc) & _).
  cbn [fst snd] in Hc.
  destruct Hc as [(Er & _) | [(Er & _ & (e & T & Oe) & _) | (Er & _)]]; try contradiction.
  split; [exact Er|]. split; [rewrite T; reflexivity|]. exists e. split; assumption.
Qed.
Print Assumptions elf_failure_sets_trace.

(* ====================================================================== *)
(* 6. (d) The images of the test harness                                  *)
(* ====================================================================== *)

Local Open Scope N_scope.

Lemma le_bytes_length k : forall n, length (le_bytes k n) = k.
Proof. induction k as [|k IH]; intros n; cbn [le_bytes length]; [reflexivity | rewrite IH; reflexivity]. Qed.

(* decoding what le_bytes encoded *)
Lemma le_at_le_bytes : forall k n a r,
  le_at (a ++ le_bytes k n ++ r) (length a) k = n mod 256 ^ N.of_nat k.
Proof.
  induction k as [|k IH]; intros n a r.
  - cbn [le_at]. change (N.of_nat 0) with 0. rewrite N.pow_0_r, N.mod_1_r. reflexivity.
  - cbn [le_at le_bytes]. 
    replace (length a) with (length a + 0)%nat at 1 by lia. rewrite byte_at_app_r.
    unfold byte_at at 1. cbn [app nth_error].
    rewrite N_ascii_embedding by (apply N.mod_lt; lia).
    change (a ++ ascii_of_N (n mod 256) :: le_bytes k (n / 256) ++ r)
      with (a ++ [ascii_of_N (n mod 256)] ++ le_bytes k (n / 256) ++ r).
    rewrite (app_assoc a). replace (S (length a)) with (length (a ++ [ascii_of_N (n mod 256)]))
      by (rewrite app_length; cbn [length]; lia).
    rewrite IH. rewrite Nat2N.inj_succ, N.pow_succ_r'.
    rewrite (N.mod_mul_r n 256 (256 ^ N.of_nat k)); [reflexivity | lia | apply N.pow_nonzero; lia].
Qed.

Lemma le_at_skip a r n off len : length a = n -> le_at (a ++ r) (n + off) len = le_at r off len.
Proof. intros <-. apply le_at_app_r. Qed.

Lemma le_at_head k n r : le_at (le_bytes k n ++ r) 0 k = n mod 256 ^ N.of_nat k.
Proof. exact (le_at_le_bytes k n [] r). Qed.

Lemma skipn_app_exact {A} (a r : list A) : skipn (length a) (a ++ r) = r.
Proof. induction a as [|x a IH]; [reflexivity | exact IH]. Qed.

Lemma concat_repeat_length (x : str) n : length (concat (repeat x n)) = (n * length x)%nat.
Proof.
  induction n as [|n IH]; [reflexivity|]. cbn [repeat concat]. rewrite app_length, IH. reflexivity.
Qed.

Lemma until_nul_app s : Forall (fun c => (N_of_ascii c =? 0) = false) s ->
  until_nul (s ++ [ascii_of_N 0]) = s.
Proof.
  induction s as [|c s IH]; intros H.
  - reflexivity.
  - inversion H as [|x xs Hc Hs]; subst x xs. cbn [app until_nul]. rewrite Hc, (IH Hs). reflexivity.
Qed.

(* ---------- the parts ---------- *)

Lemma mk_ehdr_length phnum : length (mk_ehdr phnum) = 64%nat.
Proof. reflexivity. Qed.

Lemma mk_phdr_length t f o fs ms al : length (mk_phdr t f o fs ms al) = 56%nat.
Proof. unfold mk_phdr. rewrite !app_length, !le_bytes_length. reflexivity. Qed.

Lemma mk_ehdr_magic phnum : has_magic (mk_ehdr phnum) = true.
Proof. reflexivity. Qed.

Lemma mk_ehdr_phoff phnum : le_at (mk_ehdr phnum) 32 8 = 64.
Proof. reflexivity. Qed.

Lemma mk_ehdr_phnum phnum : le_at (mk_ehdr phnum) 56 2 = N.of_nat phnum mod 65536.
Proof.
  unfold mk_ehdr.
  match goal with |- le_at ?l 56 2 = ?rhs =>
    change (le_at l (4 + (4 + (8 + (2 + (2 + (4 + (8 + (8 + (8 + (4 + (2 + (2 + 0)))))))))))) 2 = rhs) end.
  repeat (rewrite le_at_skip by (try apply le_bytes_length; reflexivity)).
  rewrite le_at_head. reflexivity.
Qed.

Lemma mk_phdr_type t f o fs ms al : le_at (mk_phdr t f o fs ms al) 0 4 = t mod 4294967296.
Proof. unfold mk_phdr. rewrite le_at_head. reflexivity. Qed.

Lemma mk_phdr_offset t f o fs ms al : le_at (mk_phdr t f o fs ms al) 8 8 = o mod 18446744073709551616.
Proof.
  unfold mk_phdr.
  match goal with |- le_at ?l 8 8 = ?rhs => change (le_at l (4 + (4 + 0)) 8 = rhs) end.
  repeat (rewrite le_at_skip by apply le_bytes_length).
  rewrite le_at_head. reflexivity.
Qed.

Lemma mk_phdr_filesz t f o fs ms al : le_at (mk_phdr t f o fs ms al) 32 8 = fs mod 18446744073709551616.
Proof.
  unfold mk_phdr.
  match goal with |- le_at ?l 32 8 = ?rhs => change (le_at l (4 + (4 + (8 + (8 + (8 + 0))))) 8 = rhs) end.
  repeat (rewrite le_at_skip by apply le_bytes_length).
  rewrite le_at_head. reflexivity.
Qed.

(* everything before the interpreter string *)
Definition mk_front (interp : str) (phnum : nat) : str :=
  mk_ehdr phnum ++ mk_load ++ mk_interp_phdr interp phnum ++ concat (repeat mk_load (phnum - 2)).

Lemma mk_elf_split interp phnum : mk_elf interp phnum = mk_front interp phnum ++ interp ++ [ascii_of_N 0].
Proof. unfold mk_elf, mk_front. rewrite <- !app_assoc. reflexivity. Qed.

Lemma mk_front_length interp phnum : (2 <= phnum)%nat -> length (mk_front interp phnum) = (64 + 56 * phnum)%nat.
Proof.
  intros H. unfold mk_front, mk_load, mk_interp_phdr.
  rewrite !app_length, concat_repeat_length, mk_ehdr_length, !mk_phdr_length. lia.
Qed.

Lemma mk_elf_length interp phnum :
  (2 <= phnum)%nat -> length (mk_elf interp phnum) = (64 + 56 * phnum + length interp + 1)%nat.
Proof.
  intros H. rewrite mk_elf_split, !app_length, mk_front_length by exact H. cbn [length]. lia.
Qed.

Lemma mk_elf_at_phdr0 interp phnum off len : (off + len <= 56)%nat ->
  le_at (mk_elf interp phnum) (64 + off) len = le_at mk_load off len.
Proof.
  intros H. unfold mk_elf.
  rewrite (le_at_skip (mk_ehdr phnum) _ 64 off len (mk_ehdr_length phnum)).
  apply le_at_app_l. unfold mk_load. rewrite mk_phdr_length. exact H.
Qed.

Lemma mk_elf_at_phdr1 interp phnum off len : (off + len <= 56)%nat ->
  le_at (mk_elf interp phnum) (120 + off) len = le_at (mk_interp_phdr interp phnum) off len.
Proof.
  intros H. unfold mk_elf. change (120 + off)%nat with (64 + (56 + off))%nat.
  rewrite (le_at_skip (mk_ehdr phnum) _ 64 _ len (mk_ehdr_length phnum)).
  rewrite (le_at_skip mk_load _ 56 off len (mk_phdr_length _ _ _ _ _ _)).
  apply le_at_app_l. unfold mk_interp_phdr. rewrite mk_phdr_length. exact H.
Qed.

(* ---------- the fields of an image, and of every cut that keeps them ---------- *)

(* [c] is the image cut after its first n bytes (n may be the whole length or
   more: then c is the image) *)
Section Fields.
  Variables (interp : str) (phnum : nat) (n : nat).
  Hypothesis Hph : (2 <= phnum)%nat /\ N.of_nat phnum < 65536.
  Hypothesis Hlen : N.of_nat (length interp) < two32.
  Let img := mk_elf interp phnum.
  Let c := firstn n img.

  Lemma cut_header_fields : (64 <= n)%nat ->
    has_magic c = true /\ e_phoff c = 64 /\ e_phnum c = N.of_nat phnum.
  Proof.
    intros Hn. unfold has_magic, e_phoff, e_phnum, c.
    rewrite !byte_at_firstn by lia. rewrite !le_at_firstn by lia.
    unfold img, mk_elf.
    rewrite !byte_at_app_l by (rewrite mk_ehdr_length; lia).
    rewrite !le_at_app_l by (rewrite mk_ehdr_length; lia).
    split; [reflexivity|]. split; [reflexivity|].
    rewrite mk_ehdr_phnum. apply N.mod_small. lia.
  Qed.

  Lemma cut_pos k : (64 <= n)%nat -> N.to_nat (phdr_pos c k) = (64 + 56 * k)%nat.
  Proof.
    intros Hn. unfold phdr_pos. destruct (cut_header_fields Hn) as (_ & -> & _). unfold phdr_size. lia.
  Qed.

  Lemma cut_flen : flen c = N.of_nat (Nat.min n (length img)).
  Proof. unfold flen, c. rewrite firstn_length. reflexivity. Qed.

  Lemma cut_inside k : (64 <= n)%nat ->
    phdr_inside c k = (64 + 56 * S k <=? Nat.min n (length img))%nat.
  Proof.
    intros Hn. unfold phdr_inside, phdr_pos. destruct (cut_header_fields Hn) as (_ & -> & _).
    rewrite cut_flen. unfold phdr_size.
    destruct (N.leb_spec (64 + 56 * N.of_nat k + 56) (N.of_nat (Nat.min n (length img))));
      destruct (Nat.leb_spec (64 + 56 * S k) (Nat.min n (length img))); try reflexivity; lia.
  Qed.

  Lemma cut_type0 : (120 <= n)%nat -> p_type c 0 = 1.
  Proof.
    intros Hn. unfold p_type. rewrite cut_pos by lia. unfold c.
    rewrite le_at_firstn by lia. unfold img.
    change (64 + 56 * 0)%nat with (64 + 0)%nat. rewrite mk_elf_at_phdr0 by lia.
    unfold mk_load. rewrite mk_phdr_type. reflexivity.
  Qed.

  Lemma cut_phdr1 : (176 <= n)%nat ->
    p_type c 1 = 3 /\ p_offset c 1 = data_off phnum /\ p_filesz c 1 = N.of_nat (S (length interp)).
  Proof.
    intros Hn. unfold p_type, p_offset, p_filesz. rewrite cut_pos by lia. unfold c.
    rewrite !le_at_firstn by lia. unfold img.
    change (64 + 56 * 1 + 8)%nat with (120 + 8)%nat. change (64 + 56 * 1 + 32)%nat with (120 + 32)%nat.
    change (64 + 56 * 1)%nat with (120 + 0)%nat.
    rewrite !mk_elf_at_phdr1 by lia.
    unfold mk_interp_phdr.
    rewrite mk_phdr_type, mk_phdr_offset, mk_phdr_filesz.
    split; [reflexivity|]. unfold data_off, two32 in *. split; apply N.mod_small; lia.
  Qed.
End Fields.

(* (d1) the image decodes to its interpreter *)
Theorem elf_image_roundtrip interp phnum :
  (2 <= phnum)%nat -> N.of_nat phnum < 65536 -> N.of_nat (length interp) < two32 ->
  Forall (fun c => (N_of_ascii c =? 0) = false) interp ->
  elf_interp_spec (mk_elf interp phnum) = Some interp.
Proof.
  intros Hph1 Hph2 Hlen Hnul. assert (Hph := conj Hph1 Hph2).
  set (img := mk_elf interp phnum).
  assert (Ec : firstn (length img) img = img) by apply firstn_all.
  assert (Hl : length img = (64 + 56 * phnum + length interp + 1)%nat) by (apply mk_elf_length; lia).
  assert (Hn64 : (64 <= length img)%nat) by lia.
  destruct (cut_header_fields interp phnum (length img) Hph Hlen Hn64) as (Hm & Hoff & Hnum).
  fold img in Hm, Hoff, Hnum. rewrite Ec in Hm, Hoff, Hnum.
  apply elf_spec_iff. split.
  - unfold well_formed_header. rewrite Hm, Hoff. unfold ehdr_size, flen, two63. repeat split; lia.
  - exists 1%nat.
    assert (Hin : forall k, (k <= 1)%nat -> phdr_inside img k = true).
    { intros k Hk. assert (X := cut_inside interp phnum (length img) Hph Hlen k Hn64).
      fold img in X. rewrite Ec in X. rewrite X. apply Nat.leb_le. lia. }
    assert (H0 := cut_type0 interp phnum (length img) Hph Hlen ltac:(lia)).
    destruct (cut_phdr1 interp phnum (length img) Hph Hlen ltac:(lia)) as (H1 & H2 & H3).
    fold img in H0, H1, H2, H3. rewrite Ec in H0, H1, H2, H3.
    split.
    + unfold decides. rewrite Hnum. split; [lia|]. split; [exact Hin|].
      split; [|exact H1]. intros k Hk. replace k with 0%nat by lia. rewrite H0. unfold pt_interp. lia.
    + rewrite H2, H3. unfold segment_string.
      assert (Hd : N.to_nat (data_off phnum) = length (mk_front interp phnum)).
      { rewrite mk_front_length by lia. unfold data_off. lia. }
      destruct (N.ltb_spec (data_off phnum) two63) as [G1|G1]; [|unfold data_off, two63 in G1; lia].
      destruct (N.ltb_spec 0 (N.of_nat (S (length interp)))) as [G2|G2]; [|lia].
      destruct (N.leb_spec (N.of_nat (S (length interp))) two32) as [G3|G3]; [|lia].
      destruct (N.leb_spec (data_off phnum + N.of_nat (S (length interp))) (flen img)) as [G4|G4];
        [|unfold flen, data_off in G4; lia].
      cbn [andb].
      replace (N.to_nat (data_off phnum + N.of_nat (S (length interp)) - 1))
        with (length (mk_front interp phnum) + (length interp + 0))%nat by lia.
      unfold img at 1 2. rewrite mk_elf_split, Hd.
      rewrite byte_at_app_r, byte_at_app_r. change (byte_at [ascii_of_N 0] 0) with 0.
      rewrite N.eqb_refl, skipn_app_exact, until_nul_app by exact Hnul. reflexivity.
Qed.
Print Assumptions elf_image_roundtrip.

Lemma scan_two b n :
  scan_phdrs b 0 (S (S n)) =
  if phdr_inside b 0 then
    if p_type b 0 =? pt_interp then segment_string b (p_offset b 0) (p_filesz b 0)
    else if phdr_inside b 1 then
           if p_type b 1 =? pt_interp then segment_string b (p_offset b 1) (p_filesz b 1)
           else scan_phdrs b 2 n
         else None
  else None.
Proof. reflexivity. Qed.

(* (d2) an image cut anywhere before its last byte is rejected *)
Theorem elf_truncated_rejected interp phnum n :
  (2 <= phnum)%nat -> N.of_nat phnum < 65536 -> N.of_nat (length interp) < two32 ->
  (n < length (mk_elf interp phnum))%nat ->
  elf_interp_spec (firstn n (mk_elf interp phnum)) = None.
Proof.
  intros Hph1 Hph2 Hlen Hn. assert (Hph := conj Hph1 Hph2).
  assert (Hl : length (mk_elf interp phnum) = (64 + 56 * phnum + length interp + 1)%nat)
    by (apply mk_elf_length; lia).
  assert (Hf : flen (firstn n (mk_elf interp phnum)) = N.of_nat n).
  { rewrite cut_flen. f_equal. lia. }
  unfold elf_interp_spec. rewrite Hf.
  destruct (N.leb_spec ehdr_size (N.of_nat n)) as [H64|H64]; [|reflexivity].
  unfold ehdr_size in H64. assert (Hn64 : (64 <= n)%nat) by lia.
  destruct (cut_header_fields interp phnum n Hph Hlen Hn64) as (Hm & Hoff & Hnum).
  rewrite Hm, Hoff, Hnum. change (negb (64 =? 0)) with true. change (64 <? two63) with true.
  cbn [andb]. rewrite Nat2N.id.
  assert (I0 := cut_inside interp phnum n Hph Hlen 0 Hn64).
  assert (I1 := cut_inside interp phnum n Hph Hlen 1 Hn64).
  replace (Nat.min n (length (mk_elf interp phnum))) with n in I0, I1 by lia.
  set (c := firstn n (mk_elf interp phnum)) in *.
  replace phnum with (S (S (phnum - 2))) by lia. rewrite scan_two. rewrite I0, I1.
  destruct (Nat.leb_spec (64 + 56 * 1) n) as [G0|G0]; [|reflexivity].
  assert (T0 := cut_type0 interp phnum n Hph Hlen ltac:(lia)). fold c in T0. rewrite T0.
  change (1 =? pt_interp) with false. cbv iota.
  destruct (Nat.leb_spec (64 + 56 * 2) n) as [G1|G1]; [|reflexivity].
  destruct (cut_phdr1 interp phnum n Hph Hlen ltac:(lia)) as (H1 & H2 & H3).
  fold c in H1, H2, H3. rewrite H1, H2, H3.
  change (3 =? pt_interp) with true. cbv iota.
  unfold segment_string. rewrite Hf.
  destruct (N.leb_spec (data_off phnum + N.of_nat (S (length interp))) (N.of_nat n)) as [G4|G4].
  - unfold data_off in G4. lia.
  - rewrite andb_false_r. reflexivity.
Qed.
Print Assumptions elf_truncated_rejected.

Local Close Scope N_scope.

(* ====================================================================== *)
(* 7. (e) realpath, and what handle_open_exec records as loader           *)
(* ====================================================================== *)

(* benign oracles: the interpreter handed to the handler is the specification's
   answer if that file exists; a missing loader is an ENOENT on the trace *)
Theorem elf_interpreter_refines_spec o w i b :
  benign o -> tr_ok (w_tr w) = true -> f_bytes (get_file (w_fs w) i) = b ->
  exists w', get_elf_interpreter i o w = (Some (resolve (w_fs w) (elf_interp_spec b)), w') /\
             w_fs w' = w_fs w /\ w_clock w' = w_clock w /\
             w_tr w' = if dangling (w_fs w) (elf_interp_spec b)
                       then tr_push (FErrno ENOENT) (w_tr w) else w_tr w.
Proof.
  intros H Hok <-. rewrite elf_spec_is_pure. exact (get_elf_interpreter_benign o w i H Hok).
Qed.
Print Assumptions elf_interpreter_refines_spec.

(* every oracle: whatever fails, a returned path is the specification's answer
   and exists; nothing but reads was issued *)
Theorem elf_interpreter_every_oracle o w i b r w' :
  tr_ok (w_tr w) = true -> f_bytes (get_file (w_fs w) i) = b ->
  get_elf_interpreter i o w = (r, w') ->
  reads_only w w' /\
  (r = None \/ r = Some None \/ r = Some (resolve (w_fs w) (elf_interp_spec b))) /\
  (forall p, r = Some (Some p) ->
     elf_interp_spec b = Some p /\ fs_exists p (w_fs w) = true /\ w_tr w' = w_tr w) /\
  (r = Some None -> resolve (w_fs w) (elf_interp_spec b) <> None -> tr_ok (w_tr w') = false).
Proof.
  intros Hok <- E. unfold get_elf_interpreter, bind in E.
  assert (Ho := get_elf_interpreter_raw_outcome i o w).
  destruct (get_elf_interpreter_raw i o w) as [r1 w1].
  destruct Ho as (R1 & Hc). cbn [fst snd] in R1, Hc.
  assert (F1 : w_fs w1 = w_fs w) by (destruct R1 as (F & _); exact F).
  set (sp := elf_interp_spec (f_bytes (get_file (w_fs w) i))) in *.
  destruct Hc as [(-> & T1 & _) | [(-> & _ & (e & T1 & _) & _) | (-> & _)]].
  - destruct sp as [p|] eqn:Esp.
    + unfold is_ok, get_tr, ret_, bind, get_fs in E. rewrite T1, Hok in E. cbn [negb] in E.
      rewrite F1 in E. cbn [resolve].
      destruct (fs_exists p (w_fs w)) eqn:Ex.
      * injection E as <- <-. split; [exact R1|]. split; [auto|]. split.
        -- intros q Eq. injection Eq as <-. auto.
        -- discriminate.
      * unfold throw_errno, throw, mod_tr, get_tr, set_tr, bind, ret_ in E. injection E as <- <-.
        split; [exact R1|]. split; [auto|]. split; [discriminate|]. intros _ Hne. contradiction.
    + injection E as <- <-. split; [exact R1|]. cbn [resolve]. split; [auto|].
      split; [discriminate|]. intros _ Hne. contradiction.
  - injection E as <- <-. split; [exact R1|]. split; [auto|]. split; [discriminate|].
    intros _ _. rewrite T1. reflexivity.
  - injection E as <- <-. split; [exact R1|]. split; [auto|]. split; discriminate.
Qed.
Print Assumptions elf_interpreter_every_oracle.

(* AttrProofs states handle_open_exec through interp_of, defined with the
   transcription elf_interp_pure of the program: it is the specification *)
Lemma interp_of_spec f path :
  interp_of f path =
  match lookup f path with
  | Some (NFile i) => resolve f (elf_interp_spec (f_bytes (get_file f i)))
  | _ => None
  end.
Proof.
  unfold interp_of, raw_interp_of.
  destruct (lookup f path) as [[|i|t m]|]; try reflexivity. rewrite elf_spec_is_pure. reflexivity.
Qed.

(* C07: when an editor binary is executed, the loader that is recorded is the
   PT_INTERP string of the ELF specification, provided that file exists; the
   process is marked in any case *)
Theorem handle_open_exec_records_loader o w pid path h i b :
  benign o -> tr_ok (w_tr w) = true ->
  lookup (w_fs w) path = Some (NFile i) -> f_bytes (get_file (w_fs w) i) = b ->
  is_editor h path = true ->
  exists h' w',
    handle_open_exec pid path h o w = (Some h', w') /\
    h_interps h' = match resolve (w_fs w) (elf_interp_spec b) with
                   | Some ld => ld :: h_interps h
                   | None => h_interps h
                   end /\
    pid_mem pid (h_pids h') = true /\
    (tr_ok (w_tr w') = false -> dangling (w_fs w) (elf_interp_spec b) = false ->
     ~ journal_fits (h_journal h) (exec_event_name h path) (w_clock w)).
Proof.
  intros H Hok El <- Hed.
  destruct (handle_open_exec_refines o w pid path h H Hok)
    as (h' & w' & E & Eh & _ & _ & _ & Good & _).
  exists h', w'. split; [exact E|].
  assert (Ei : interp_of (w_fs w) path =
               resolve (w_fs w) (elf_interp_spec (f_bytes (get_file (w_fs w) i)))).
  { rewrite interp_of_spec, El. reflexivity. }
  rewrite Eh, Ei. unfold h_step. unfold is_editor in Hed. rewrite Hed. cbn [h_interps h_pids].
  split; [reflexivity|]. split.
  - destruct (pid_mem pid (h_pids h)) eqn:Em; [exact Em|].
    cbn [pid_mem existsb]. rewrite N.eqb_refl. reflexivity.
  - intros Hno Hd Hfit. destruct Good as (K & _); [|exact Hfit|].
    + unfold exec_dangling, is_editor, raw_interp_of. rewrite Hed, El, <- elf_spec_is_pure.
      exact Hd.
    + apply tr_keep_ok in K. congruence.
Qed.
Print Assumptions handle_open_exec_records_loader.

(* the images of the harness: the loader named in the image is recorded *)
Corollary handle_open_exec_records_image o w pid path h i ld phnum :
  benign o -> tr_ok (w_tr w) = true ->
  lookup (w_fs w) path = Some (NFile i) ->
  f_bytes (get_file (w_fs w) i) = mk_elf ld phnum ->
  (2 <= phnum)%nat -> (N.of_nat phnum < 65536)%N -> (N.of_nat (length ld) < two32)%N ->
  Forall (fun c => (N_of_ascii c =? 0)%N = false) ld ->
  fs_exists ld (w_fs w) = true ->
  is_editor h path = true ->
  exists h' w',
    handle_open_exec pid path h o w = (Some h', w') /\
    h_interps h' = ld :: h_interps h /\ pid_mem pid (h_pids h') = true.
Proof.
  intros H Hok El Eb Hp1 Hp2 Hl Hn Hex Hed.
  destruct (handle_open_exec_records_loader o w pid path h i _ H Hok El Eb Hed)
    as (h' & w' & E & Ei & Em & _).
  exists h', w'. split; [exact E|]. split; [|exact Em].
  rewrite Ei, (elf_image_roundtrip ld phnum Hp1 Hp2 Hl Hn). cbn [resolve]. rewrite Hex. reflexivity.
Qed.
Print Assumptions handle_open_exec_records_image.

(* ====================================================================== *)
(* 8. Concrete checks                                                     *)
(* ====================================================================== *)

Module ElfExample.
  Import AttrExample.
  Local Open Scope char_scope.

  (* a world whose inode 2 holds the bytes b *)
  Definition fs_of (b : str) : fs :=
    mkFs [ (p_b, NDir); (p_vim, NFile 2); (p_ld1, NFile 5); (p_j, NFile 1); (p_q, NDir) ]
         [ (1, mkFile old true); (2, mkFile b true); (5, mkFile (elf_magic ++ zeros 60) true) ] 8.
  Definition world_of (b : str) : world := mkW (fs_of b) 0 [] 100%Z tr_empty.

  (* the program, run on the bytes b without faults *)
  Definition run_raw (b : str) : option (option str) :=
    fst (get_elf_interpreter_raw 2 no_faults (world_of b)).

  Definition opt_eqb (x y : option str) : bool :=
    match x, y with
    | None, None => true
    | Some a, Some b => str_eqb a b
    | _, _ => false
    end.

  (* program and specification agree on b *)
  Definition agree (b : str) : bool :=
    match run_raw b with
    | Some r => opt_eqb r (elf_interp_spec b)
    | None => false
    end.

  Fixpoint setb (b : str) (k : nat) (v : N) : str :=
    match b, k with
    | [], _ => []
    | _ :: r, O => ascii_of_N v :: r
    | c :: r, S k' => c :: setb r k' v
    end.

  Definition img : str := mk_elf p_ld1 2.      (* 64 + 2 * 56 + 4 + 1 = 181 bytes *)
  Definition img4 : str := mk_elf p_ld1 4.

  Example img_is_the_harness_layout :
    length img = 181%nat /\ e_phoff img = 64%N /\ e_phnum img = 2%N /\
    p_type img 0 = 1%N /\ p_type img 1 = 3%N /\ p_offset img 1 = 176%N /\ p_filesz img 1 = 5%N.
  Proof. vm_compute. repeat split. Qed.

  Example img_accepted : elf_interp_spec img = Some p_ld1 /\ run_raw img = Some (Some p_ld1).
  Proof. vm_compute. split; reflexivity. Qed.

  (* files of 0 .. 181 bytes: every cut of the image, among them 63 / 64 / 65
     bytes, a cut in the middle of the PT_INTERP entry (120 .. 175), a segment
     that reaches exactly the end of the file (181) and one that ends one byte
     beyond it (180) *)
  Example every_cut_agrees : forallb (fun n => agree (firstn n img)) (seq 0 182) = true.
  Proof. vm_compute. reflexivity. Qed.

  Example only_the_whole_image_is_accepted :
    filter (fun n => match elf_interp_spec (firstn n img) with Some _ => true | None => false end)
           (seq 0 182) = [181%nat].
  Proof. vm_compute. reflexivity. Qed.

  (* with four entries: a cut inside a later program header is rejected as
     well, because the segment lies behind the headers *)
  Example every_cut_agrees4 :
    forallb (fun n => agree (firstn n img4)) (seq 0 (S (length img4))) = true /\
    filter (fun n => match elf_interp_spec (firstn n img4) with Some _ => true | None => false end)
           (seq 0 (S (length img4))) = [length img4].
  Proof. vm_compute. split; reflexivity. Qed.

  (* every byte of the image replaced by each of these values: wrong magic,
     e_phoff 0 / beyond the end / into the data, e_phnum 0 / 1 / 255, other
     p_type, offsets and sizes that leave the file, sizes 0 and 1, a NUL in the
     middle of the string, no NUL at the end, ... *)
  Definition vals : list N := [0; 1; 3; 5; 56; 64; 120; 176; 177; 180; 181; 182; 255]%N.
  Example every_mutation_agrees :
    forallb (fun k => forallb (fun v => agree (setb img k v)) vals) (seq 0 (length img)) = true /\
    forallb (fun k => forallb (fun v => agree (setb img4 k v)) vals) (seq 0 (length img4)) = true.
  Proof. vm_compute. split; reflexivity. Qed.

  (* the low byte of e_phoff, p_offset and p_filesz through all 256 values *)
  Example field_sweeps_agree :
    forallb (fun v => agree (setb img 32 (N.of_nat v))) (seq 0 256) = true /\
    forallb (fun v => agree (setb img 128 (N.of_nat v))) (seq 0 256) = true /\
    forallb (fun v => agree (setb img 152 (N.of_nat v))) (seq 0 256) = true.
  Proof. vm_compute. repeat split. Qed.

  (* offsets and sizes of 2^63, 2^56, 2^32 + ... : bytes 39 / 135 / 159 are the
     top bytes of e_phoff / p_offset / p_filesz, 156 is bit 32 of p_filesz *)
  Example huge_fields_agree :
    map agree [setb img 39 128; setb img 39 127; setb img 135 128; setb img 135 1;
               setb img 159 1; setb img 156 1; setb (setb img 156 1) 152 0;
               setb (setb img 156 1) 152 1]
    = [true; true; true; true; true; true; true; true] /\
    (* p_filesz = 2^32 exactly is still tried (and fails: the file is shorter);
       2^32 + 1 is refused without a read *)
    elf_interp_spec (setb (setb img 156 1) 152 0) = None.
  Proof. vm_compute. split; reflexivity. Qed.

  (* named cases *)
  Example tricky :
    (* p_filesz = 0 *)
    elf_interp_spec (setb img 152 0) = None /\
    (* p_filesz = 1 and p_offset on the final NUL: the empty string *)
    elf_interp_spec (setb (setb img 152 1) 128 180) = Some [] /\
    (* a NUL in the middle of the segment: the string stops there *)
    elf_interp_spec (setb img 178 0) = Some ["/"; "l"] /\
    (* the segment ends one byte beyond the end of the file *)
    elf_interp_spec (setb img 152 6) = None /\
    (* the last byte of the segment is not NUL *)
    elf_interp_spec (setb img 152 4) = None /\
    (* e_phnum = 0 and 1: the PT_INTERP entry is never looked at *)
    elf_interp_spec (setb img 56 0) = None /\ elf_interp_spec (setb img 56 1) = None /\
    (* e_phnum = 3: a third entry would overlap the data, but the second decides *)
    elf_interp_spec (setb img 56 3) = Some p_ld1 /\
    (* bytes after the image are harmless *)
    elf_interp_spec (img ++ p_vim) = Some p_ld1 /\
    (* e_phoff beyond the end of the file *)
    elf_interp_spec (setb img 32 200) = None /\
    (* a 64-byte file: a header with no room for entries *)
    elf_interp_spec (firstn 64 img) = None.
  Proof. vm_compute. repeat split. Qed.

  (* ----- the theorems are not vacuous ----- *)

  (* (a): a kernel that moves 3 bytes per transfer is benign; reads ignore it *)
  Example refines_instance :
    exists w', get_elf_interpreter_raw 2 o3 (world_of img) = (Some (Some p_ld1), w') /\
               w_fs w' = fs_of img /\ w_tr w' = tr_empty.
  Proof.
    destruct (elf_reader_refines_spec o3 (world_of img) 2 img o3_benign eq_refl)
      as (w' & E & F & T & _).
    exists w'. split; [|split; assumption].
    rewrite E. replace (elf_interp_spec img) with (Some p_ld1) by (vm_compute; reflexivity). reflexivity.
  Qed.

  (* (b): the second read (the first program header) fails with EIO; the third
     read (the second program header) never happens *)
  Definition o_eio1 : oracle := fun k => if Nat.eqb k 1 then FFail EIO else FNone.
  Example failed_read_run :
    match get_elf_interpreter_raw 2 o_eio1 (world_of img) with
    | (r, w') => r = Some None /\ w_tr w' = mkTr [FErrno EIO] 0 0 /\
                 w_log w' = [(CReadN 56, RFault EIO); (CReadN 64, RInt 64)] /\ w_fs w' = fs_of img
    end.
  Proof. vm_compute. repeat split. Qed.

  Example failed_read_by_theorem :
    forall r w', get_elf_interpreter_raw 2 o_eio1 (world_of img) = (r, w') ->
      r = None \/ r = Some None \/ r = Some (Some p_ld1).
  Proof.
    intros r w' E.
    destruct (elf_reads_in_bounds o_eio1 (world_of img) 2 img r w' eq_refl E) as (_ & H & _).
    replace (elf_interp_spec img) with (Some p_ld1) in H by (vm_compute; reflexivity). exact H.
  Qed.

  (* the process dies at the fourth read (the segment) *)
  Definition o_crash3 : oracle := fun k => if Nat.eqb k 3 then FCrash else FNone.
  Example crashed_run :
    match get_elf_interpreter_raw 2 o_crash3 (world_of img) with
    | (r, w') => r = None /\ w_tr w' = tr_empty /\ w_n w' = 3 /\
                 w_log w' = [(CReadN 56, RInt 56); (CReadN 56, RInt 56); (CReadN 64, RInt 64)]
    end.
  Proof. vm_compute. repeat split. Qed.

  (* the fault-free log: header, two entries, the segment of p_filesz = 5 bytes *)
  Example full_run_log :
    w_log (snd (get_elf_interpreter_raw 2 no_faults (world_of img))) =
    [(CReadN 5, RInt 5); (CReadN 56, RInt 56); (CReadN 56, RInt 56); (CReadN 64, RInt 64)].
  Proof. vm_compute. reflexivity. Qed.

  (* a cut image: the short read is followed by one more read, which returns 0 *)
  Example short_read_log :
    w_log (snd (get_elf_interpreter_raw 2 no_faults (world_of (firstn 150 img)))) =
    [(CReadN 56, RInt 0); (CReadN 56, RInt 30); (CReadN 56, RInt 56); (CReadN 64, RInt 64)].
  Proof. vm_compute. reflexivity. Qed.

  (* (d): the hypotheses of the round trip hold for the harness's image *)
  Example roundtrip_instance : elf_interp_spec (mk_elf p_ld1 7) = Some p_ld1.
  Proof.
    apply elf_image_roundtrip; [lia | vm_compute; reflexivity | vm_compute; reflexivity |].
    repeat constructor.
  Qed.

  Example truncated_instance : elf_interp_spec (firstn 300 (mk_elf p_ld1 7)) = None.
  Proof.
    apply elf_truncated_rejected; [lia | vm_compute; reflexivity | vm_compute; reflexivity |].
    rewrite mk_elf_length by lia. cbn [length p_ld1]. lia.
  Qed.

  (* (e): vim, an editor of AttrExample.cfg0, is the image; its loader /ld1 exists *)
  Example records_instance o : benign o ->
    exists h' w',
      handle_open_exec 100 p_vim h0 o (world_of (mk_elf p_ld1 3)) = (Some h', w') /\
      h_interps h' = [p_ld1] /\ pid_mem 100 (h_pids h') = true.
  Proof.
    intros H.
    apply (handle_open_exec_records_image o (world_of (mk_elf p_ld1 3)) 100%N p_vim h0 2 p_ld1 3 H);
      try reflexivity; try lia.
    repeat constructor.
  Qed.

  Example records_run :
    match handle_open_exec 100 p_vim h0 o3 (world_of (mk_elf p_ld1 3)) with
    | (Some h, w) => h_pids h = [100%N] /\ h_interps h = [p_ld1] /\ tr_ok (w_tr w) = true
    | _ => False
    end.
  Proof. vm_compute. auto. Qed.

  (* a truncated editor binary: the process is marked, no loader is recorded,
     and that is not an error *)
  Example truncated_editor_run :
    match handle_open_exec 100 p_vim h0 o3 (world_of (firstn 200 (mk_elf p_ld1 3))) with
    | (Some h, w) => h_pids h = [100%N] /\ h_interps h = [] /\ tr_ok (w_tr w) = true
    | _ => False
    end.
  Proof. vm_compute. auto. Qed.
End ElfExample.

Print Assumptions ElfExample.every_mutation_agrees.
Print Assumptions ElfExample.refines_instance.
Print Assumptions ElfExample.failed_read_by_theorem.
Print Assumptions ElfExample.records_instance.
