(* C04 "stored versions are immutable", part 1: definitions and the
   file-system level lemmas (no programs here).

   Paths of the store, the project store and the unstable project tree form the
   "immutable class" (they share inodes through hard links); offset files and
   the journal form the "mutable class".  [SI] says that the two classes never
   share an inode; [preserved] says that every file of the store / project
   store is still there with the same bytes. *)
From K Require Import Str Dec Trace Fs World Progs Elf Linq Sieve Handler Hoare Confine Confine2 SyncProofs.
From Coq Require Import Lia.

(* ---------- paths ---------- *)

(* this shadows the boolean Str.under; [underb_spec] below relates the two *)
Definition under (r p : str) : Prop := exists x, p = r ++ ch_slash :: x.

(* two locations that do not nest at string level *)
Definition nn (a b : str) : Prop := a <> b /\ ~ under a b /\ ~ under b a.

Lemma nn_sym a b : nn a b -> nn b a.
Proof. intros [H1 [H2 H3]]. repeat split; auto. Qed.

Lemma under_trans a b p : under a b -> under b p -> under a p.
Proof.
  intros [x ->] [y ->]. exists (x ++ ch_slash :: y). rewrite <- app_assoc. reflexivity.
Qed.

Lemma under_both a b p : under a p -> under b p -> a = b \/ under a b \/ under b a.
Proof.
  intros [x ->] [y H].
  destruct (app_slash_split a x b y H) as [[->|[r ->]]|[r ->]].
  - left; reflexivity.
  - right; right. exists r; reflexivity.
  - right; left. exists r; reflexivity.
Qed.

Lemma nn_under a b p : nn a b -> under a p -> under b p -> False.
Proof.
  intros [H1 [H2 H3]] Ha Hb. destruct (under_both a b p Ha Hb) as [E|[E|E]]; auto.
Qed.

(* a path below a directory d cannot be under r unless d and r nest *)
Lemma nn_under_sub d r x : nn d r -> under r (d ++ ch_slash :: x) -> False.
Proof.
  intros Hn Hu. apply (nn_under d r (d ++ ch_slash :: x) Hn); [exists x; reflexivity | exact Hu].
Qed.

Lemma underb_spec d s : Str.under d s = true <-> under d s.
Proof.
  unfold Str.under, under. rewrite prefixb_spec. split; intros [t Ht]; exists t; rewrite Ht.
  - rewrite <- app_assoc. reflexivity.
  - rewrite <- app_assoc. reflexivity.
Qed.

(* ---------- the two classes of a configuration ---------- *)

(* what must be preserved: files of the store and of the project store *)
Definition kept (c : config) (p : str) : Prop :=
  under (c_store_root c) p \/ under (c_project_store_root c) p.

(* the immutable class: these three trees share inodes through hard links *)
Definition imm (c : config) (p : str) : Prop :=
  kept c p \/ under (c_unstable_root c) p.

(* the mutable class: offset files and the journal *)
Definition mut (c : config) (p : str) : Prop :=
  under (c_offset_root c) p \/ c_journal_path c = Some p.

Lemma kept_imm c p : kept c p -> imm c p.
Proof. intros H. left. exact H. Qed.

(* ---------- non-nested locations ---------- *)

Fixpoint pairwise {A} (R : A -> A -> Prop) (l : list A) : Prop :=
  match l with
  | [] => True
  | x :: l' => Forall (R x) l' /\ pairwise R l'
  end.

(* the six locations: store, project store, unstable project store, queue,
   offset root and (if configured) the journal path *)
Definition disjoint_locs (c : config) : Prop :=
  pairwise nn (cfg_locs c) /\
  (forall l, In l (cfg_locs c) -> l <> []) /\
  c_queue_path c <> root_path.

Section DL.
Variable c : config.
Hypothesis D : disjoint_locs c.

Let PW : pairwise nn (c_store_root c :: c_project_store_root c :: c_unstable_root c ::
                      c_queue_path c :: c_offset_root c ::
                      match c_journal_path c with Some j => [j] | None => [] end).
Proof. destruct D as [H _]. exact H. Qed.

Lemma dl_store_unst : nn (c_store_root c) (c_unstable_root c).
Proof. destruct PW as [H _]. rewrite Forall_forall in H. apply H. simpl. tauto. Qed.
Lemma dl_store_queue : nn (c_store_root c) (c_queue_path c).
Proof. destruct PW as [H _]. rewrite Forall_forall in H. apply H. simpl. tauto. Qed.
Lemma dl_store_off : nn (c_store_root c) (c_offset_root c).
Proof. destruct PW as [H _]. rewrite Forall_forall in H. apply H. simpl. tauto. Qed.
Lemma dl_pstore_unst : nn (c_project_store_root c) (c_unstable_root c).
Proof. destruct PW as [_ [H _]]. rewrite Forall_forall in H. apply H. simpl. tauto. Qed.
Lemma dl_pstore_queue : nn (c_project_store_root c) (c_queue_path c).
Proof. destruct PW as [_ [H _]]. rewrite Forall_forall in H. apply H. simpl. tauto. Qed.
Lemma dl_pstore_off : nn (c_project_store_root c) (c_offset_root c).
Proof. destruct PW as [_ [H _]]. rewrite Forall_forall in H. apply H. simpl. tauto. Qed.
Lemma dl_unst_off : nn (c_unstable_root c) (c_offset_root c).
Proof. destruct PW as [_ [_ [H _]]]. rewrite Forall_forall in H. apply H. simpl. tauto. Qed.

Lemma dl_store_j j : c_journal_path c = Some j -> nn (c_store_root c) j.
Proof.
  intros E. pose proof PW as H. rewrite E in H. destruct H as [H _].
  rewrite Forall_forall in H. apply H. simpl. tauto.
Qed.
Lemma dl_pstore_j j : c_journal_path c = Some j -> nn (c_project_store_root c) j.
Proof.
  intros E. pose proof PW as H. rewrite E in H. destruct H as [_ [H _]].
  rewrite Forall_forall in H. apply H. simpl. tauto.
Qed.
Lemma dl_unst_j j : c_journal_path c = Some j -> nn (c_unstable_root c) j.
Proof.
  intros E. pose proof PW as H. rewrite E in H. destruct H as [_ [_ [H _]]].
  rewrite Forall_forall in H. apply H. simpl. tauto.
Qed.

Lemma dl_unst_ne : c_unstable_root c <> [].
Proof. destruct D as [_ [H _]]. apply H. unfold cfg_locs. simpl. tauto. Qed.

Lemma dl_queue_ne_root : c_queue_path c <> root_path.
Proof. destruct D as [_ [_ H]]. exact H. Qed.

(* the two classes are disjoint as sets of paths *)
Lemma cdisj_of_dl p : mut c p -> imm c p -> False.
Proof.
  intros [Hm|Hm] [[Hi|Hi]|Hi].
  - exact (nn_under _ _ _ dl_store_off Hi Hm).
  - exact (nn_under _ _ _ dl_pstore_off Hi Hm).
  - exact (nn_under _ _ _ dl_unst_off Hi Hm).
  - destruct (dl_store_j p Hm) as [_ [H _]]. auto.
  - destruct (dl_pstore_j p Hm) as [_ [H _]]. auto.
  - destruct (dl_unst_j p Hm) as [_ [H _]]. auto.
Qed.

Lemma unst_not_kept p : under (c_unstable_root c) p -> ~ kept c p.
Proof.
  intros Hu [Hk|Hk].
  - exact (nn_under _ _ _ dl_store_unst Hk Hu).
  - exact (nn_under _ _ _ dl_pstore_unst Hk Hu).
Qed.

Lemma off_not_kept p : under (c_offset_root c) p -> ~ kept c p.
Proof. intros Hu Hk. apply (cdisj_of_dl p); [left; exact Hu | left; exact Hk]. Qed.

End DL.

(* the queue directory of a handler does not nest with the store roots *)
Definition qdir_ok (c : config) (d : str) : Prop :=
  d <> root_path /\ nn d (c_store_root c) /\ nn d (c_project_store_root c).

Lemma qdir_ok_queue c : disjoint_locs c -> qdir_ok c (c_queue_path c).
Proof.
  intros D. split; [apply dl_queue_ne_root; exact D|].
  split; apply nn_sym; [apply dl_store_queue | apply dl_pstore_queue]; exact D.
Qed.

Lemma qdir_not_kept c d n : qdir_ok c d -> ~ kept c (join d n).
Proof.
  intros [Hr [H1 H2]] Hk. rewrite (join_ne _ _ Hr) in Hk. destruct Hk as [Hk|Hk].
  - exact (nn_under_sub _ _ _ H1 Hk).
  - exact (nn_under_sub _ _ _ H2 Hk).
Qed.

(* ---------- dentries ---------- *)

Definition dent (f : fs) (p : str) (n : node) : Prop := In (p, n) (fs_dents f).

Lemma alookup_In {A} k (v : A) l : alookup k l = Some v -> In (k, v) l.
Proof.
  induction l as [|[k' v'] l IH]; simpl; intros H; [discriminate|].
  destruct (str_eqb_spec k k') as [->|Hn].
  - inversion H. left. reflexivity.
  - right. auto.
Qed.

Lemma lookup_dent f p i : lookup f p = Some (NFile i) -> dent f p (NFile i).
Proof.
  unfold lookup, dent. destruct (str_eqb p root_path); [discriminate|]. apply alookup_In.
Qed.

Lemma alookup_app_some {A} k (v : A) l l' : alookup k l = Some v -> alookup k (l ++ l') = Some v.
Proof.
  induction l as [|[k' v'] l IH]; simpl; intros H; [discriminate|].
  destruct (str_eqb k k'); auto.
Qed.

Lemma lookup_app_some f q v l files nxt :
  lookup f q = Some v -> lookup (mkFs (fs_dents f ++ l) files nxt) q = Some v.
Proof.
  unfold lookup. destruct (str_eqb q root_path); [auto|]. cbn [fs_dents]. apply alookup_app_some.
Qed.

Lemma lookup_add_some f p n q v : lookup f q = Some v -> lookup (add_dent p n f) q = Some v.
Proof. apply lookup_app_some. Qed.

Lemma alookup_aremove_other {A} k p (l : list (str * A)) :
  k <> p -> alookup k (aremove p l) = alookup k l.
Proof.
  intros Hn. induction l as [|[k' v'] l IH]; simpl; [reflexivity|].
  destruct (str_eqb_spec p k') as [->|Hp].
  - apply str_eqb_neq in Hn. rewrite Hn. reflexivity.
  - simpl. rewrite IH. reflexivity.
Qed.

Lemma lookup_del_other f p q : q <> p -> lookup (del_dent p f) q = lookup f q.
Proof.
  intros Hn. unfold lookup. destruct (str_eqb q root_path); [reflexivity|].
  cbn [del_dent fs_dents]. apply alookup_aremove_other. exact Hn.
Qed.

Lemma In_aremove {A} k (e : str * A) l : In e (aremove k l) -> In e l.
Proof.
  induction l as [|[k' v'] l IH]; simpl; [tauto|].
  destruct (str_eqb k k'); simpl; [tauto|]. intros [H|H]; auto.
Qed.

Lemma dent_del f p q n : dent (del_dent p f) q n -> dent f q n.
Proof. unfold dent. cbn [del_dent fs_dents]. apply In_aremove. Qed.

Lemma dent_add f p n q m : dent (add_dent p n f) q m -> dent f q m \/ (q = p /\ m = n).
Proof.
  unfold dent. cbn [add_dent fs_dents]. intros H. apply in_app_or in H.
  destruct H as [H|[H|[]]]; [left; exact H | right; inversion H; auto].
Qed.

Lemma dent_created f p q m :
  dent (created p f) q m -> dent f q m \/ (q = p /\ m = NFile (fs_next f)).
Proof.
  unfold dent. cbn [created fs_dents]. intros H. apply in_app_or in H.
  destruct H as [H|[H|[]]]; [left; exact H | right; inversion H; auto].
Qed.

Lemma get_file_set_other j x f i : i <> j -> get_file (set_file j x f) i = get_file f i.
Proof.
  intros Hn. unfold get_file, set_file. cbn [fs_files].
  rewrite nlookup_nupdate_other by exact Hn. reflexivity.
Qed.

(* ---------- the invariant on inode sharing ---------- *)

Record SI (c : config) (oj : option journal) (f : fs) : Prop := {
  si_lt : forall p i, dent f p (NFile i) -> i < fs_next f;
  si_sep : forall p q i, dent f p (NFile i) -> dent f q (NFile i) -> mut c p -> imm c q -> False;
  si_jlt : forall jn, oj = Some jn -> j_ino jn < fs_next f;
  si_jsep : forall jn q, oj = Some jn -> dent f q (NFile (j_ino jn)) -> imm c q -> False
}.

(* the invariant between handler operations *)
Definition SInv (c : config) (h : handler) (f : fs) : Prop :=
  SI c (h_journal h) f /\ qdir_ok c (q_dir (h_q h)).

Definition cdisj (c : config) : Prop := forall p, mut c p -> imm c p -> False.

Lemma SI_same_dents c oj f f' :
  fs_dents f' = fs_dents f -> fs_next f' = fs_next f -> SI c oj f -> SI c oj f'.
Proof.
  intros Ed En [H1 H2 H3 H4]. constructor; unfold dent in *; rewrite ?Ed, ?En; assumption.
Qed.

Lemma SI_set_file c oj j x f : SI c oj f -> SI c oj (set_file j x f).
Proof. apply SI_same_dents; reflexivity. Qed.

Lemma SI_sub c oj f f' :
  (forall q n, dent f' q n -> dent f q n) -> fs_next f' = fs_next f -> SI c oj f -> SI c oj f'.
Proof.
  intros Hs En [H1 H2 H3 H4]. constructor; rewrite ?En; eauto.
Qed.

Lemma SI_del c oj p f : SI c oj f -> SI c oj (del_dent p f).
Proof. apply SI_sub; [intros q n; apply dent_del | reflexivity]. Qed.

Lemma SI_add_other c oj p n f :
  (forall i, n <> NFile i) -> SI c oj f -> SI c oj (add_dent p n f).
Proof.
  intros Hn [H1 H2 H3 H4].
  assert (Hd : forall q i, dent (add_dent p n f) q (NFile i) -> dent f q (NFile i)).
  { intros q i H. destruct (dent_add _ _ _ _ _ H) as [H'|[_ E]]; [exact H'|].
    exfalso. apply (Hn i). symmetry. exact E. }
  constructor; cbn [add_dent fs_next]; eauto.
Qed.

(* a hard link inside the immutable class *)
Lemma SI_add_file c oj src p i f :
  cdisj c -> dent f src (NFile i) -> imm c src -> imm c p ->
  SI c oj f -> SI c oj (add_dent p (NFile i) f).
Proof.
  intros Hc Hsrc Hisrc Hip [H1 H2 H3 H4]. constructor; cbn [add_dent fs_next].
  - intros q k H. destruct (dent_add _ _ _ _ _ H) as [H'|[_ E]]; [eauto|].
    inversion E; subst. eauto.
  - intros q1 q2 k Hq1 Hq2 Hm Hi.
    destruct (dent_add _ _ _ _ _ Hq1) as [A|[-> E1]].
    + destruct (dent_add _ _ _ _ _ Hq2) as [B|[-> E2]]; [eauto|].
      inversion E2; subst. eauto.
    + eapply Hc; eauto.
  - assumption.
  - intros jn q Ej Hq Hi. destruct (dent_add _ _ _ _ _ Hq) as [A|[-> E]]; [eauto|].
    inversion E as [E']. apply (H4 jn src Ej); [rewrite E'; exact Hsrc | exact Hisrc].
Qed.

(* a new file with a fresh inode, anywhere *)
Lemma SI_created c oj p f : cdisj c -> SI c oj f -> SI c oj (created p f).
Proof.
  intros Hc [H1 H2 H3 H4]. constructor; cbn [created fs_next].
  - intros q k H. destruct (dent_created _ _ _ _ H) as [H'|[_ E]].
    + apply H1 in H'. lia.
    + inversion E. lia.
  - intros q1 q2 k Hq1 Hq2 Hm Hi.
    destruct (dent_created _ _ _ _ Hq1) as [A|[-> E1]];
      destruct (dent_created _ _ _ _ Hq2) as [B|[-> E2]].
    + eauto.
    + inversion E2; subst. apply H1 in A. lia.
    + inversion E1; subst. apply H1 in B. lia.
    + eapply Hc; eauto.
  - intros jn E. apply H3 in E. lia.
  - intros jn q Ej Hq Hi. destruct (dent_created _ _ _ _ Hq) as [A|[-> E]]; [eauto|].
    inversion E as [E']. apply H3 in Ej. lia.
Qed.

(* opening the journal: the inode behind the journal path joins the mutable class *)
Lemma SI_open_journal c oj p pat i f f' :
  cdisj c -> c_journal_path c = Some p ->
  fs_open_create p f = (inl (FdFile i), f') ->
  SI c oj f -> SI c (Some (mkJ i pat)) f'.
Proof.
  intros Hc Ep E HS. assert (Hm : mut c p) by (right; exact Ep).
  unfold fs_open_create in E. destruct (lookup f p) as [[|k|]|] eqn:El; try discriminate.
  - inversion E; subst. destruct HS as [H1 H2 H3 H4]. constructor; auto.
    + intros jn Ej. inversion Ej; subst. simpl. eapply H1. apply lookup_dent. exact El.
    + intros jn q Ej Hq Hi. inversion Ej; subst. simpl in Hq.
      eapply H2; [apply lookup_dent; exact El | exact Hq | exact Hm | exact Hi].
  - unfold fs_create_excl in E. rewrite El in E. destruct (parent_is_dir f p); [discriminate|].
    inversion E; subst. fold (created p f).
    pose proof (SI_created c oj p f Hc HS) as [G1 G2 G3 G4]. destruct HS as [H1 H2 H3 H4].
    constructor; auto.
    + intros jn Ej. inversion Ej; subst. simpl. lia.
    + intros jn q Ej Hq Hi. inversion Ej; subst. simpl in Hq.
      destruct (dent_created _ _ _ _ Hq) as [A|[-> _]].
      * apply H1 in A. lia.
      * eapply Hc; eauto.
Qed.

Lemma SI_drop_journal c oj f : SI c oj f -> SI c None f.
Proof. intros [H1 H2 H3 H4]. constructor; auto; intros; discriminate. Qed.

(* ---------- preservation of the stored files ---------- *)

Definition preserved (c : config) (f f' : fs) : Prop :=
  forall p i, kept c p -> lookup f p = Some (NFile i) ->
    lookup f' p = Some (NFile i) /\ f_bytes (get_file f' i) = f_bytes (get_file f i).

(* a path whose unlinking cannot hurt / an inode that may be written *)
Definition safe_path (c : config) (f0 : fs) (p : str) : Prop :=
  kept c p -> forall i, lookup f0 p <> Some (NFile i).
Definition safe_ino (c : config) (f0 : fs) (j : nat) : Prop :=
  forall p, kept c p -> lookup f0 p <> Some (NFile j).

Lemma preserved_refl c f : preserved c f f.
Proof. intros p i _ H. auto. Qed.

Lemma preserved_trans c f1 f2 f3 : preserved c f1 f2 -> preserved c f2 f3 -> preserved c f1 f3.
Proof.
  intros H12 H23 p i Hk Hl. destruct (H12 p i Hk Hl) as [A B].
  destruct (H23 p i Hk A) as [A' B']. split; [exact A' | congruence].
Qed.

Lemma not_kept_safe c f0 p : ~ kept c p -> safe_path c f0 p.
Proof. intros H Hk. contradiction. Qed.

Section Pres.
Variables (c : config) (f0 : fs).

Lemma pres_same f f' :
  (forall q v, lookup f q = Some v -> lookup f' q = Some v) ->
  (forall q i, lookup f q = Some (NFile i) -> get_file f' i = get_file f i) ->
  preserved c f0 f -> preserved c f0 f'.
Proof.
  intros Hl Hg H p i Hk Hp. destruct (H p i Hk Hp) as [A B]. split; [auto|].
  rewrite (Hg p i A). exact B.
Qed.

Lemma pres_add p n f : preserved c f0 f -> preserved c f0 (add_dent p n f).
Proof. apply pres_same; [intros q v; apply lookup_add_some | reflexivity]. Qed.

Lemma pres_del p f : safe_path c f0 p -> preserved c f0 f -> preserved c f0 (del_dent p f).
Proof.
  intros Hs H q i Hk Hq. destruct (H q i Hk Hq) as [A B]. split; [|exact B].
  rewrite lookup_del_other; [exact A|]. intros ->. exact (Hs Hk i Hq).
Qed.

Lemma pres_set_file j x f : safe_ino c f0 j -> preserved c f0 f -> preserved c f0 (set_file j x f).
Proof.
  intros Hs H q i Hk Hq. destruct (H q i Hk Hq) as [A B]. split; [exact A|].
  rewrite get_file_set_other; [exact B|]. intros ->. exact (Hs q Hk Hq).
Qed.

Lemma pres_created p f :
  (forall q i, dent f q (NFile i) -> i < fs_next f) ->
  preserved c f0 f -> preserved c f0 (created p f).
Proof.
  intros Hlt. apply pres_same.
  - intros q v. apply lookup_app_some.
  - intros q i Hq. apply get_file_created_other. apply lookup_dent in Hq. apply Hlt in Hq. lia.
Qed.

(* what the invariants say about f0 *)
Lemma fresh_safe_ino oj f : preserved c f0 f -> SI c oj f -> safe_ino c f0 (fs_next f).
Proof.
  intros H HS p Hk Hp. destruct (H p _ Hk Hp) as [A _]. apply lookup_dent in A.
  apply (si_lt _ _ _ HS) in A. lia.
Qed.

Lemma absent_safe_path f p : preserved c f0 f -> lookup f p = None -> safe_path c f0 p.
Proof. intros H Hn Hk i Hp. destruct (H p i Hk Hp) as [A _]. congruence. Qed.

Lemma dir_safe_path f p : preserved c f0 f -> lookup f p = Some NDir -> safe_path c f0 p.
Proof. intros H Hn Hk i Hp. destruct (H p i Hk Hp) as [A _]. congruence. Qed.

Lemma mut_safe_ino oj f p i :
  preserved c f0 f -> SI c oj f -> mut c p -> lookup f p = Some (NFile i) -> safe_ino c f0 i.
Proof.
  intros H HS Hm Hl q Hk Hq. destruct (H q i Hk Hq) as [A _].
  eapply (si_sep _ _ _ HS); [apply lookup_dent; exact Hl | apply lookup_dent; exact A | exact Hm |].
  apply kept_imm. exact Hk.
Qed.

Lemma journal_safe_ino jn f : preserved c f0 f -> SI c (Some jn) f -> safe_ino c f0 (j_ino jn).
Proof.
  intros H HS q Hk Hq. destruct (H q _ Hk Hq) as [A _].
  eapply (si_jsep _ _ _ HS); [reflexivity | apply lookup_dent; exact A | apply kept_imm; exact Hk].
Qed.

End Pres.

(* ---------- the combined invariant, relative to the initial file system ---------- *)

Definition Inv (c : config) (oj : option journal) (f0 f : fs) : Prop :=
  preserved c f0 f /\ SI c oj f.

Section InvSteps.
Variables (c : config) (oj : option journal) (f0 : fs).
Hypothesis Hc : cdisj c.
Notation Inv := (Inv c oj f0).

Lemma Inv_add_other p n f : (forall i, n <> NFile i) -> Inv f -> Inv (add_dent p n f).
Proof. intros Hn [H1 H2]. split; [apply pres_add; exact H1 | apply SI_add_other; assumption]. Qed.

Lemma Inv_mkdir p f : Inv f -> Inv (snd (fs_mkdir p f)).
Proof.
  intros H. unfold fs_mkdir. destruct (lookup f p); [exact H|].
  destruct (parent_is_dir f p); [exact H|]. simpl. apply Inv_add_other; [discriminate | exact H].
Qed.

Lemma Inv_symlink p t m f : Inv f -> Inv (snd (fs_symlink p t m f)).
Proof.
  intros H. unfold fs_symlink. destruct (lookup f p); [exact H|].
  destruct (parent_is_dir f p); [exact H|]. simpl. apply Inv_add_other; [discriminate | exact H].
Qed.

Lemma Inv_del p f : safe_path c f0 p -> Inv f -> Inv (del_dent p f).
Proof. intros Hs [H1 H2]. split; [apply pres_del; assumption | apply SI_del; assumption]. Qed.

Lemma Inv_rmdir p f : Inv f -> Inv (snd (fs_rmdir p f)).
Proof.
  intros H. unfold fs_rmdir. destruct (lookup f p) as [[| |]|] eqn:E; try exact H.
  destruct (children f p); [|exact H]. simpl. apply Inv_del; [|exact H].
  destruct H as [H1 _]. eapply dir_safe_path; eauto.
Qed.

Lemma Inv_unlink p f : safe_path c f0 p -> Inv f -> Inv (snd (fs_unlink p f)).
Proof.
  intros Hs H. unfold fs_unlink. destruct (lookup f p) as [[| |]|]; try exact H;
    simpl; apply Inv_del; assumption.
Qed.

Lemma Inv_set_file j x f : safe_ino c f0 j -> Inv f -> Inv (set_file j x f).
Proof. intros Hs [H1 H2]. split; [apply pres_set_file; assumption | apply SI_set_file; assumption]. Qed.

Lemma Inv_append j b f : safe_ino c f0 j -> Inv f -> Inv (fs_append j b f).
Proof. intros Hs H. unfold fs_append. apply Inv_set_file; assumption. Qed.

Lemma Inv_truncate j f : safe_ino c f0 j -> Inv f -> Inv (fs_truncate j f).
Proof. intros Hs H. unfold fs_truncate. apply Inv_set_file; assumption. Qed.

Lemma Inv_created p f : Inv f -> Inv (created p f).
Proof.
  intros [H1 H2]. split; [|apply SI_created; assumption].
  apply pres_created; [|exact H1]. apply (si_lt _ _ _ H2).
Qed.

(* O_CREAT|O_EXCL: on success the inode is fresh and the path was not a stored file *)
Lemma Inv_create_excl p f :
  Inv f ->
  Inv (snd (fs_create_excl p f)) /\
  (forall i, fst (fs_create_excl p f) = inl (FdFile i) -> safe_ino c f0 i /\ safe_path c f0 p).
Proof.
  intros H. unfold fs_create_excl. destruct (lookup f p) eqn:E.
  - simpl. split; [exact H | intros i Hi; discriminate].
  - destruct (parent_is_dir f p).
    + simpl. split; [exact H | intros i Hi; discriminate].
    + simpl. split; [apply (Inv_created p f H)|].
      intros i Hi. inversion Hi; subst. destruct H as [H1 H2]. split.
      * eapply fresh_safe_ino; eauto.
      * eapply absent_safe_path; eauto.
Qed.

(* O_CREAT without O_EXCL on a path of the mutable class *)
Lemma Inv_open_create p f :
  mut c p -> Inv f ->
  Inv (snd (fs_open_create p f)) /\
  (forall i, fst (fs_open_create p f) = inl (FdFile i) -> safe_ino c f0 i).
Proof.
  intros Hm H. unfold fs_open_create. destruct (lookup f p) as [[|k|]|] eqn:E.
  - simpl. split; [exact H | intros i Hi; discriminate].
  - simpl. split; [exact H|]. intros i Hi. inversion Hi; subst.
    destruct H as [H1 H2]. eapply mut_safe_ino; eauto.
  - simpl. split; [exact H | intros i Hi; discriminate].
  - destruct (Inv_create_excl p f H) as [A B]. split; [exact A|].
    intros i Hi. apply (B i Hi).
Qed.

(* link(2) inside the immutable class *)
Lemma Inv_link a b f : imm c a -> imm c b -> Inv f -> Inv (snd (fs_link a b f)).
Proof.
  intros Ha Hb H. unfold fs_link.
  destruct (lookup f a) as [[|k|t m]|] eqn:E; try exact H.
  - destruct (lookup f b); [exact H|]. destruct (parent_is_dir f b); [exact H|]. simpl.
    destruct H as [H1 H2]. split; [apply pres_add; exact H1|].
    apply (SI_add_file c oj a b k f Hc); [apply lookup_dent; exact E | exact Ha | exact Hb | exact H2].
  - destruct (lookup f b); [exact H|]. destruct (parent_is_dir f b); [exact H|]. simpl.
    apply Inv_add_other; [discriminate | exact H].
Qed.

Lemma Inv_cl_add : forall f p n, (forall i, n <> NFile i) -> Inv f -> Inv (add_dent p n f).
Proof. intros f p n. apply Inv_add_other. Qed.

(* O_CREAT without O_EXCL on any path keeps the invariant (nothing is written yet) *)
Lemma Inv_open_create_any p f : Inv f -> Inv (snd (fs_open_create p f)).
Proof.
  intros H. unfold fs_open_create. destruct (lookup f p) as [[|k|]|]; try exact H.
  apply (Inv_create_excl p f H).
Qed.

End InvSteps.

(* opening the journal of configuration c: the returned inode becomes the journal inode *)
Lemma Inv_open_journal c oj f0 p pat i f f' :
  cdisj c -> c_journal_path c = Some p ->
  fs_open_create p f = (inl (FdFile i), f') ->
  Inv c oj f0 f -> Inv c (Some (mkJ i pat)) f0 f'.
Proof.
  intros Hc Ep E H. split.
  - pose proof (Inv_open_create_any c oj f0 Hc p f H) as [A _]. rewrite E in A. exact A.
  - destruct H as [_ HS]. eapply SI_open_journal; eauto.
Qed.

Lemma Inv_drop_journal c oj f0 f : Inv c oj f0 f -> Inv c None f0 f.
Proof. intros [H1 H2]. split; [exact H1 | eapply SI_drop_journal; exact H2]. Qed.
