(* C03 Pending work and stored versions survive a crash at any point.
   Queue part: every queue operation performs exactly one directory mutation
   (push: one symlinkat; pop: one unlinkat), so the disk states a crash can leave
   are exactly the states after a prefix of the operations; each of them reloads
   to the reference queue of that prefix.  Store part: see C04 / C09 (every
   oracle includes crashes) and the crash enumeration of the check. *)
From K Require Import Str SetM SetProofs Linq LinqSpec LinqProofs Dec DecProofs.
Local Open Scope Z_scope.

Lemma Forall_firstn {A} (P : A -> Prop) (l : list A) k : Forall P l -> Forall P (firstn k l).
Proof.
  revert k. induction l as [|x l IH]; intros [|k] H; simpl; try constructor; inversion H; subst; auto.
Qed.

(* whatever prefix of a history of accepted writes, timeout passes, clock steps,
   debounce changes and restarts was completed when the daemon died, a restart
   finds a loadable queue that holds, in order, exactly the entries accepted and
   not yet removed *)
Theorem C03_queue_survives_crash :
  forall (deb : Z) (g g' : nat) (now : Z) (ops : list lop) (k : nat),
  Forall wf_op ops ->
  let s := fst (lrun (linit deb g now) (firstn k ops)) in
  let q := rs_q (fst (rrun (mkRS [] deb now) (firstn k ops))) in
  R (load (l_dir (ls_q s)) (l_deb (ls_q s)) g') q /\
  l_dir (load (l_dir (ls_q s)) (l_deb (ls_q s)) g') = number_from (l_head (ls_q s)) q.
Proof.
  intros deb g g' now ops k Hwf s q.
  pose proof (reachable_R deb g now (firstn k ops) (Forall_firstn _ _ k Hwf)) as HR.
  fold s in HR. fold q in HR. split.
  - apply load_sim. assumption.
  - destruct HR as [Hd _ _ _ _ _]. simpl. assumption.
Qed.
Print Assumptions C03_queue_survives_crash.

(* the position file of a history path is rewritten digit by digit after a
   truncation: a crash in the middle can only rewind it (bytes are stored again,
   never skipped) *)
Theorem C03_offset_never_ahead : forall (n : N) (k : nat), (undec (firstn k (dec n)) <= n)%N.
Proof. exact undec_firstn_dec. Qed.
Print Assumptions C03_offset_never_ahead.

Example C03_example :
  let a := [ch_slash; "a"%char] in let b := [ch_slash; "b"%char] in
  let ops := [LPush a 0%N; LPush b 2%N; LHead; LPop; LPush a 0%N] in
  Forall wf_op ops /\
  map (fun k => map fst (l_dir (load (l_dir (ls_q (fst (lrun (linit 0 0 5) (firstn k ops))))) 0 0)))
      [0; 1; 2; 3; 4; 5]%nat = [[]; [0%N]; [0%N; 1%N]; [0%N; 1%N]; [1%N]; [1%N; 2%N]].
Proof.
  split.
  - repeat constructor; simpl; try exact I; eexists; (split; [reflexivity|]); simpl; auto.
  - vm_compute. reflexivity.
Qed.
