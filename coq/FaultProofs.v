(* C10 "failures are reported, never swallowed, and never lose work":
   one iteration of the timeout pass over a FILE head, for EVERY oracle.

   Structure
     0. stepping lemmas for runs ([post], the reading of [ht] used here);
     1. file-system facts: the list of non-directory entries ([vdents]), kept
        look-ups ([keep]), old inodes ([old_files]) under each system call;
     2. the classification of failed calls ([reported_class], [bad]), logs;
     3. specifications, for every oracle, of create_parents, clean_up,
        sendfile_loop, sync_file ([sync_file_spec]), write_counter
        ([write_counter_spec]), file_store_loop ([file_store_loop_spec]: five
        outcomes), and of a crash during the copy;
     4. the iteration: [file_step] = read_counter; [copy_step];
          fault_is_reported, failed_copy_keeps_entry,
          failed_copy_leaves_no_version, position_not_rewound   (every oracle)
        [timeout_reaches_file_step]: the iteration of handle_timeout_loop IS
        file_step; [read_counter_spec]; [timeout_iteration_failed_copy]: the
        conclusions (1)-(3) for handle_timeout_loop itself;
     5. expected conditions do not stop the daemon (benign oracles):
          missing_source_does_not_stop, unreadable_source_does_not_stop,
          non_regular_source_does_not_stop;
     6. Module FaultExample: a concrete world; every call index failed in turn
        (vm_compute), the hypotheses of all theorems hold there, and witnesses
        for the statements that do NOT hold.  *)
From K Require Import Str Dec Trace Fs World Progs Elf Linq Sieve Handler Hoare SyncProofs AbandonProofs DecProofs.
From K Require QueueProofs LinqSpec.
From Coq Require Import Lia.

(* ====================================================================== *)
(* 0. post-conditions of runs, stepping                                   *)
(* ====================================================================== *)

Definition post {A} (Q : A -> world -> Prop) (C : world -> Prop) (r : option A * world) : Prop :=
  match r with (Some a, w') => Q a w' | (None, w') => C w' end.

Lemma ht_post_iff {A} O P (m : M A) Q C :
  ht O P m Q C <-> (forall o w, O o -> P w -> post Q C (m o w)).
Proof. unfold ht, post. split; intros H o w Ho Hp; specialize (H o w Ho Hp); exact H. Qed.

Lemma post_bind {A B} (m : M A) (k : A -> M B) o w Q C :
  post (fun a w1 => post Q C (k a o w1)) C (m o w) -> post Q C (bind m k o w).
Proof. unfold bind, post. destruct (m o w) as [[a|] w1]; auto. Qed.

Lemma post_mono {A} (Q Q' : A -> world -> Prop) (C C' : world -> Prop) r :
  post Q C r -> (forall a w, Q a w -> Q' a w) -> (forall w, C w -> C' w) -> post Q' C' r.
Proof. destruct r as [[a|] w]; simpl; auto. Qed.

Lemma post_ret {A} (a : A) o w (Q : A -> world -> Prop) C : Q a w -> post Q C (ret_ a o w).
Proof. intros H. exact H. Qed.

(* state-only primitives compute *)
Lemma bind_ret {A B} (a : A) (k : A -> M B) o w : bind (ret_ a) k o w = k a o w.
Proof. reflexivity. Qed.
Lemma bind_is_ok {B} (k : bool -> M B) o w : bind is_ok k o w = k (tr_ok (w_tr w)) o w.
Proof. reflexivity. Qed.
Lemma bind_get_tr {B} (k : trace -> M B) o w : bind get_tr k o w = k (w_tr w) o w.
Proof. reflexivity. Qed.
Lemma bind_get_fs {B} (k : fs -> M B) o w : bind get_fs k o w = k (w_fs w) o w.
Proof. reflexivity. Qed.
Lemma bind_set_tr {B} t (k : unit -> M B) o w : bind (set_tr t) k o w = k tt o (upd_tr t w).
Proof. reflexivity. Qed.
Lemma bind_mod_tr {B} f (k : unit -> M B) o w : bind (mod_tr f) k o w = k tt o (upd_tr (f (w_tr w)) w).
Proof. reflexivity. Qed.
Lemma bind_throw {B} fr (k : unit -> M B) o w :
  bind (throw fr) k o w = k tt o (upd_tr (tr_push fr (w_tr w)) w).
Proof. reflexivity. Qed.
Lemma bind_catch_static {B} m (k : bool -> M B) o w :
  bind (catch_static m) k o w =
  k (fst (tr_catch_static m (w_tr w))) o (upd_tr (snd (tr_catch_static m (w_tr w))) w).
Proof.
  unfold catch_static, bind, get_tr. destruct (tr_catch_static m (w_tr w)) as [b t']. reflexivity.
Qed.
Lemma bind_assoc {A B C} (m : M A) (f : A -> M B) (g : B -> M C) o w :
  bind (bind m f) g o w = bind m (fun a => bind (f a) g) o w.
Proof. unfold bind. destruct (m o w) as [[a|] w1]; reflexivity. Qed.

Lemma upd_tr_fs t w : w_fs (upd_tr t w) = w_fs w. Proof. reflexivity. Qed.
Lemma upd_tr_log t w : w_log (upd_tr t w) = w_log w. Proof. reflexivity. Qed.
Lemma upd_tr_tr t w : w_tr (upd_tr t w) = t. Proof. reflexivity. Qed.
Lemma upd_tr_n t w : w_n (upd_tr t w) = w_n w. Proof. reflexivity. Qed.
Lemma upd_tr_upd t t' w : upd_tr t (upd_tr t' w) = upd_tr t w. Proof. reflexivity. Qed.
Lemma upd_tr_same w : upd_tr (w_tr w) w = w. Proof. destruct w; reflexivity. Qed.

(* one system call, every oracle *)
Lemma post_sys {A} c (perform : fs -> ret * A * fs) (on_fail : errno -> A) o w
      (Q : A -> world -> Prop) (C : world -> Prop) :
  C w ->
  (forall e, Q (on_fail e) (after_call c (RFault e) (w_fs w) w)) ->
  (forall r a f', perform (w_fs w) = (r, a, f') -> Q a (after_call c r f' w)) ->
  post Q C (sys c perform on_fail o w).
Proof.
  intros Hc Hf Hs. unfold sys.
  destruct (o (w_n w)) as [|e|n|n|];
    [ destruct (perform (w_fs w)) as [[r a] f']; exact (Hs r a f' eq_refl)
    | apply Hf
    | destruct (perform (w_fs w)) as [[r a] f']; exact (Hs r a f' eq_refl)
    | destruct (perform (w_fs w)) as [[r a] f']; exact (Hs r a f' eq_refl)
    | exact Hc ].
Qed.

Lemma post_sys_unit c op o w (Q : option errno -> world -> Prop) (C : world -> Prop) :
  C w ->
  (forall e, Q (Some e) (after_call c (RFault e) (w_fs w) w)) ->
  (forall e f', op (w_fs w) = (e, f') -> Q e (after_call c (err_ret e) f' w)) ->
  post Q C (sys_unit c op o w).
Proof.
  intros Hc Hf Hs. unfold sys_unit. apply post_sys; [exact Hc | exact Hf |].
  intros r a f' E. destruct (op (w_fs w)) as [e f1]. inversion E; subst. apply Hs. reflexivity.
Qed.

Lemma post_open_gen c op o w (Q : fd + errno -> world -> Prop) (C : world -> Prop) :
  C w ->
  (forall e, Q (inr e) (after_call c (RFault e) (w_fs w) w)) ->
  (forall r f', op (w_fs w) = (r, f') ->
     Q r (after_call c (match r with inl _ => RFd | inr e => RErr e end) f' w)) ->
  post Q C (k_open_gen c op o w).
Proof.
  intros Hc Hf Hs. unfold k_open_gen. apply post_sys; [exact Hc | exact Hf |].
  intros r a f' E. destruct (op (w_fs w)) as [r1 f1]. inversion E; subst. apply Hs. reflexivity.
Qed.

(* ====================================================================== *)
(* 1. file-system facts                                                   *)
(* ====================================================================== *)

Definition nondir (n : node) : bool := match n with NDir => false | _ => true end.

Section Fs.
Variable offp : str.   (* the offset file of the head: the one path whose entry may change *)

(* the non-directory entries, except "/" and the offset file *)
Definition vd (e : str * node) : bool :=
  nondir (snd e) && negb (str_eqb (fst e) root_path) && negb (str_eqb (fst e) offp).
Definition vdents (f : fs) : list (str * node) := filter vd (fs_dents f).

(* look-ups of existing non-directories are kept (except possibly at [ex]) *)
Definition keep (ex : option str) (f0 f : fs) : Prop :=
  forall p n, Some p <> ex -> nondir n = true -> lookup f0 p = Some n -> lookup f p = Some n.

(* inodes that existed at the start keep their content *)
Definition old_files (f0 f : fs) : Prop :=
  fs_next f0 <= fs_next f /\ forall k, k < fs_next f0 -> get_file f k = get_file f0 k.

Lemma keep_refl ex f : keep ex f f.
Proof. intros p n _ _ H. exact H. Qed.
Lemma keep_trans ex f0 f1 f2 : keep ex f0 f1 -> keep ex f1 f2 -> keep ex f0 f2.
Proof. intros H1 H2 p n He Hn Hl. apply (H2 p n He Hn). apply (H1 p n He Hn). exact Hl. Qed.
Lemma keep_weaken ex f0 f : keep None f0 f -> keep ex f0 f.
Proof. intros H p n _ Hn Hl. apply (H p n); [discriminate | exact Hn | exact Hl]. Qed.

Lemma old_files_refl f : old_files f f.
Proof. split; [lia | auto]. Qed.
Lemma old_files_trans f0 f1 f2 : old_files f0 f1 -> old_files f1 f2 -> old_files f0 f2.
Proof.
  intros [H1 G1] [H2 G2]. split; [lia|]. intros k Hk. rewrite G2 by lia. apply G1. exact Hk.
Qed.
Lemma old_files_same f f' : fs_files f' = fs_files f -> fs_next f' = fs_next f -> old_files f f'.
Proof. intros E1 E2. split; [lia|]. intros k _. unfold get_file. rewrite E1. reflexivity. Qed.

(* ----- association lists ----- *)

Lemma alookup_none_filter {A} (g : str * A -> bool) k (l : list (str * A)) :
  alookup k l = None -> alookup k (filter g l) = None.
Proof.
  induction l as [|[k' v] l IH]; simpl; [reflexivity|].
  destruct (str_eqb k k') eqn:E; [discriminate|]. intros H.
  destruct (g (k', v)); simpl; [rewrite E|]; apply IH; exact H.
Qed.

Lemma aremove_app_new {A} k (v : A) l : alookup k l = None -> aremove k (l ++ [(k, v)]) = l.
Proof.
  induction l as [|[k' v'] l IH]; simpl; intros H.
  - rewrite str_eqb_refl. reflexivity.
  - destruct (str_eqb k k') eqn:E; [discriminate|]. rewrite IH by exact H. reflexivity.
Qed.

(* removing the first entry with key k, when that entry is dropped by the filter *)
Lemma filter_aremove_dropped {A} (g : str * A -> bool) k v (l : list (str * A)) :
  alookup k l = Some v -> g (k, v) = false -> filter g (aremove k l) = filter g l.
Proof.
  induction l as [|[k' v'] l IH]; simpl; [discriminate|].
  destruct (str_eqb_spec k k') as [->|Hn].
  - intros E Hg. inversion E; subst. rewrite Hg. reflexivity.
  - intros E Hg. simpl. rewrite (IH E Hg). reflexivity.
Qed.

(* ... when the filter keeps it *)
Lemma filter_aremove_kept {A} (g : str * A -> bool) k v (l : list (str * A)) :
  alookup k l = Some v -> g (k, v) = true -> filter g (aremove k l) = aremove k (filter g l).
Proof.
  induction l as [|[k' v'] l IH]; simpl; [discriminate|].
  destruct (str_eqb_spec k k') as [->|Hn].
  - intros E Hg. inversion E; subst. rewrite Hg. simpl. rewrite str_eqb_refl. reflexivity.
  - intros E Hg. simpl. destruct (g (k', v')); simpl.
    + destruct (str_eqb_spec k k'); [contradiction|]. rewrite (IH E Hg). reflexivity.
    + apply IH; assumption.
Qed.

Lemma filter_aremove_key {A} (g : str * A -> bool) k (l : list (str * A)) :
  (forall v, g (k, v) = false) -> filter g (aremove k l) = filter g l.
Proof.
  intros Hg. induction l as [|[k' v'] l IH]; simpl; [reflexivity|].
  destruct (str_eqb_spec k k') as [->|Hn].
  - rewrite Hg. reflexivity.
  - simpl. rewrite IH. reflexivity.
Qed.

(* ----- each operation ----- *)

Lemma lookup_nonroot_alookup f p : lookup f p = None -> alookup p (fs_dents f) = None /\ p <> root_path.
Proof.
  unfold lookup. destruct (str_eqb_spec p root_path) as [->|Hn]; [discriminate|]. auto.
Qed.

Lemma vdents_add_dir p f : vdents (add_dent p NDir f) = vdents f.
Proof.
  unfold vdents. cbn [add_dent fs_dents]. rewrite filter_app. cbn [filter vd snd nondir andb].
  apply app_nil_r.
Qed.

Lemma keep_add ex p n f : lookup f p = None -> keep ex f (add_dent p n f).
Proof.
  intros Hl q m _ _ Hq. rewrite lookup_add_dent_other; [exact Hq|]. intros ->. congruence.
Qed.

Lemma mkdir_facts p f e f' :
  fs_mkdir p f = (e, f') ->
  vdents f' = vdents f /\ keep None f f' /\ fs_files f' = fs_files f /\ fs_next f' = fs_next f.
Proof.
  unfold fs_mkdir. destruct (lookup f p) eqn:El.
  - intros E. inversion E; subst. repeat split; auto using keep_refl.
  - destruct (parent_is_dir f p); intros E; inversion E; subst.
    + repeat split; auto using keep_refl.
    + split; [apply vdents_add_dir|]. split; [apply keep_add; exact El|]. split; reflexivity.
Qed.

Lemma vdents_del_dir p f : lookup f p = Some NDir -> vdents (del_dent p f) = vdents f.
Proof.
  intros Hl. unfold vdents. cbn [del_dent fs_dents]. unfold lookup in Hl.
  destruct (str_eqb_spec p root_path) as [->|Hn].
  - apply filter_aremove_key. intros v. unfold vd. cbn [fst]. rewrite str_eqb_refl.
    rewrite andb_false_r. reflexivity.
  - apply (filter_aremove_dropped vd p NDir); [exact Hl | reflexivity].
Qed.

Lemma keep_del ex p f : (forall n, nondir n = true -> lookup f p <> Some n) -> keep ex f (del_dent p f).
Proof.
  intros Hp q m _ Hm Hq. rewrite lookup_del_dent_other; [exact Hq|]. intros ->. exact (Hp m Hm Hq).
Qed.

Lemma rmdir_facts p f e f' :
  fs_rmdir p f = (e, f') ->
  vdents f' = vdents f /\ keep None f f' /\ fs_files f' = fs_files f /\ fs_next f' = fs_next f.
Proof.
  unfold fs_rmdir. destruct (lookup f p) as [[| |]|] eqn:El;
    try solve [intros E; inversion E; subst; repeat split; auto using keep_refl].
  destruct (children f p); intros E; inversion E; subst.
  - split; [apply vdents_del_dir; exact El|]. split; [|split; reflexivity].
    apply keep_del. intros n Hn. rewrite El. intros H. inversion H; subst. discriminate.
  - repeat split; auto using keep_refl.
Qed.

Lemma vd_app_new p n l f :
  vdents f = l -> vdents (mkFs (fs_dents f ++ [(p, n)]) (fs_files f) (fs_next f)) = l ++ filter vd [(p, n)].
Proof. intros <-. unfold vdents. cbn [fs_dents]. apply filter_app. Qed.

(* exclusive create *)
Lemma create_excl_facts p f r f' :
  fs_create_excl p f = (r, f') ->
  match r with
  | inr _ => f' = f
  | inl d => d = FdFile (fs_next f) /\ lookup f p = None /\ f' = created p f /\
             vdents f' = vdents f ++ filter vd [(p, NFile (fs_next f))] /\
             keep None f f' /\ old_files f f' /\
             lookup f' p = Some (NFile (fs_next f)) /\
             get_file f' (fs_next f) = mkFile [] true
  end.
Proof.
  unfold fs_create_excl. destruct (lookup f p) eqn:El; [intros E; inversion E; reflexivity|].
  destruct (parent_is_dir f p); intros E; inversion E; subst; [reflexivity|].
  split; [reflexivity|]. split; [reflexivity|]. split; [reflexivity|].
  split; [apply vd_app_new; reflexivity|].
  split.
  { intros q m _ _ Hq. change (lookup (created p f) q = Some m).
    rewrite lookup_created_other; [exact Hq | intros ->; congruence]. }
  split.
  { split; [cbn [fs_next]; lia|]. intros k Hk. change (get_file (created p f) k = get_file f k).
    apply get_file_created_other. lia. }
  split; [apply (lookup_created_same p f El) | apply (get_file_created_new p f)].
Qed.

(* unlink of the entry created last (nothing in between touched the dentries) *)
Lemma unlink_created p f :
  lookup f p = None ->
  fs_unlink p (created p f) = (None, mkFs (fs_dents f) (fs_files (created p f)) (fs_next (created p f))).
Proof.
  intros Hl. unfold fs_unlink. rewrite (lookup_created_same p f Hl).
  destruct (lookup_nonroot_alookup f p Hl) as [Ha _].
  unfold del_dent, created. cbn [fs_dents fs_files fs_next]. rewrite (aremove_app_new p _ _ Ha).
  reflexivity.
Qed.

(* unlink in general: only the first entry with that key goes *)
Lemma unlink_facts p f e f' :
  fs_unlink p f = (e, f') ->
  fs_files f' = fs_files f /\ fs_next f' = fs_next f /\
  (forall q, q <> p -> lookup f' q = lookup f q) /\
  (p = offp -> vdents f' = vdents f).
Proof.
  unfold fs_unlink. destruct (lookup f p) as [[| |]|] eqn:El; intros E; inversion E; subst;
    try (repeat split; auto; fail).
  - split; [reflexivity|]. split; [reflexivity|]. split; [intros q Hq; apply lookup_del_dent_other; exact Hq|].
    intros ->. unfold vdents. cbn [del_dent fs_dents]. apply filter_aremove_key.
    intros v. unfold vd. cbn [fst]. rewrite str_eqb_refl. apply andb_false_r.
  - split; [reflexivity|]. split; [reflexivity|]. split; [intros q Hq; apply lookup_del_dent_other; exact Hq|].
    intros ->. unfold vdents. cbn [del_dent fs_dents]. apply filter_aremove_key.
    intros v. unfold vd. cbn [fst]. rewrite str_eqb_refl. apply andb_false_r.
Qed.

Lemma vdents_append i c f : vdents (fs_append i c f) = vdents f.
Proof. reflexivity. Qed.
Lemma vdents_truncate i f : vdents (fs_truncate i f) = vdents f.
Proof. reflexivity. Qed.

Lemma old_files_append f0 f i c : old_files f0 f -> fs_next f0 <= i -> old_files f0 (fs_append i c f).
Proof.
  intros [H1 H2] Hi. split; [rewrite fs_next_append; exact H1|].
  intros k Hk. rewrite get_file_append_other by lia. apply H2. exact Hk.
Qed.

Lemma keep_append ex f0 f i c : keep ex f0 f -> keep ex f0 (fs_append i c f).
Proof. intros H p n He Hn Hl. rewrite lookup_append. apply (H p n He Hn Hl). Qed.

End Fs.

(* ====================================================================== *)
(* 2. failed calls, logs, step relations                                  *)
(* ====================================================================== *)

Definition failed (r : ret) : option errno :=
  match r with RFault e | RErr e => Some e | _ => None end.

(* the calls the copy of a file head may issue (in particular: no unlinkat) *)
Definition plainc (c : call) : bool :=
  match c with
  | CMkdir _ | CRmdir _ | COpenR _ | COpenExcl _ | CFstat | CSendfile _ _ | CClose
  | CUnlink _ | COpenW _ | CFtruncate | CWrite _ => true
  | _ => false
  end.
Definition plain (cr : call * ret) : Prop := plainc (fst cr) = true.

Lemma after_call_log c r f w : w_log (after_call c r f w) = (c, r) :: w_log w. Proof. reflexivity. Qed.
Lemma after_call_tr c r f w : w_tr (after_call c r f w) = w_tr w. Proof. reflexivity. Qed.
Lemma after_call_fs c r f w : w_fs (after_call c r f w) = f. Proof. reflexivity. Qed.

Section Copy.
Variable offp : str.

(* Failures that must be reported: (call, errno) pairs outside the expected
   conditions.  Expected: EEXIST of a mkdir (the ancestor is there), ENOENT /
   ENOTDIR ("the path no longer leads to a file") / EACCES of the open of the
   source, EEXIST of the exclusive create, ENOENT of
   the unlink of the offset file.  NOT in this class, because their failure is
   ignored by design or context-dependent: close (see the [closes] facts
   below), rmdir (clean_up drops its errors: "FIXME cleanup error reporting" in
   sync.c), unlink of the destination (it runs on an already failed trace). *)
Definition reported_class (c : call) (e : errno) : bool :=
  match c with
  | CMkdir _ => match e with EEXIST => false | _ => true end
  | COpenR _ => match e with ENOENT | ENOTDIR | EACCES => false | _ => true end
  | COpenExcl _ => match e with EEXIST => false | _ => true end
  | CFstat | CSendfile _ _ | COpenW _ | CFtruncate | CWrite _ => true
  | CUnlink p => str_eqb p offp && match e with ENOENT => false | _ => true end
  | _ => false
  end.

Definition bad (cr : call * ret) : bool :=
  match failed (snd cr) with Some e => reported_class (fst cr) e | None => false end.
Definition nobad (l : list (call * ret)) : Prop := existsb bad l = false.

Lemma nobad_nil : nobad []. Proof. reflexivity. Qed.
Lemma nobad_app a b : nobad (a ++ b) <-> nobad a /\ nobad b.
Proof. unfold nobad. rewrite existsb_app, orb_false_iff. tauto. Qed.
Lemma nobad_cons x l : nobad (x :: l) <-> bad x = false /\ nobad l.
Proof. unfold nobad. cbn [existsb]. rewrite orb_false_iff. tauto. Qed.
Lemma nobad_one x : bad x = false -> nobad [x].
Proof. intros H. apply nobad_cons. split; [exact H | exact nobad_nil]. Qed.

Lemma bad_failed c r e : r = RFault e \/ r = RErr e -> bad (c, r) = reported_class c e.
Proof. intros [->| ->]; reflexivity. Qed.

(* what the value returned by a wrapper says about the logged result *)
Definition retv (v : option errno) (r : ret) : Prop :=
  match v with None => r = RInt 0 | Some e => r = RFault e \/ r = RErr e end.
Definition reto {A} (v : A + errno) (r : ret) : Prop :=
  match v with inl _ => failed r = None | inr e => r = RFault e \/ r = RErr e end.

Lemma retv_err_ret e : retv e (err_ret e).
Proof. destruct e; simpl; auto. Qed.

(* ----- step relations on file systems ----- *)

(* directories only: what create_parents / clean_up may do *)
Definition dirstep (f f' : fs) : Prop :=
  vdents offp f' = vdents offp f /\ keep None f f' /\ fs_files f' = fs_files f /\ fs_next f' = fs_next f.

Lemma dirstep_refl f : dirstep f f.
Proof. repeat split; auto using keep_refl. Qed.
Lemma dirstep_trans f0 f1 f2 : dirstep f0 f1 -> dirstep f1 f2 -> dirstep f0 f2.
Proof.
  intros [A1 [B1 [C1 D1]]] [A2 [B2 [C2 D2]]]. split; [congruence|].
  split; [eapply keep_trans; eauto|]. split; congruence.
Qed.

(* content of one inode only *)
Definition inostep (i : nat) (f f' : fs) : Prop :=
  fs_dents f' = fs_dents f /\ fs_next f' = fs_next f /\ forall k, k <> i -> get_file f' k = get_file f k.

Lemma inostep_refl i f : inostep i f f.
Proof. repeat split; auto. Qed.
Lemma inostep_trans i f0 f1 f2 : inostep i f0 f1 -> inostep i f1 f2 -> inostep i f0 f2.
Proof.
  intros [A1 [B1 C1]] [A2 [B2 C2]]. split; [congruence|]. split; [congruence|].
  intros k Hk. rewrite C2 by exact Hk. apply C1. exact Hk.
Qed.
Lemma inostep_append i c f : inostep i f (fs_append i c f).
Proof.
  split; [reflexivity|]. split; [apply fs_next_append|]. intros k Hk. apply get_file_append_other. exact Hk.
Qed.

Lemma lookup_same_dents f f' p : fs_dents f' = fs_dents f -> lookup f' p = lookup f p.
Proof. intros E. unfold lookup. rewrite E. reflexivity. Qed.
Lemma vdents_same_dents f f' : fs_dents f' = fs_dents f -> vdents offp f' = vdents offp f.
Proof. intros E. unfold vdents. rewrite E. reflexivity. Qed.
Lemma keep_same_dents ex f f' : fs_dents f' = fs_dents f -> keep ex f f'.
Proof. intros E p n _ _ H. rewrite (lookup_same_dents _ _ p E). exact H. Qed.

(* ----- log extension by plain calls + a relation on the file systems ----- *)

Definition DP (R : fs -> fs -> Prop) (w w' : world) (l : list (call * ret)) : Prop :=
  w_log w' = l ++ w_log w /\ Forall plain l /\ R (w_fs w) (w_fs w').

Lemma DP_refl (R : fs -> fs -> Prop) w : (forall f, R f f) -> DP R w w [].
Proof. intros H. split; [reflexivity|]. split; [constructor | apply H]. Qed.

Lemma DP_trans (R : fs -> fs -> Prop) w w1 w2 l1 l2 :
  (forall a b c, R a b -> R b c -> R a c) ->
  DP R w w1 l1 -> DP R w1 w2 l2 -> DP R w w2 (l2 ++ l1).
Proof.
  intros Ht [A1 [B1 C1]] [A2 [B2 C2]]. split; [rewrite A2, A1; apply app_assoc|].
  split; [apply Forall_app; auto | eapply Ht; eauto].
Qed.

Lemma DP_call (R : fs -> fs -> Prop) c r f1 w :
  plainc c = true -> R (w_fs w) f1 -> DP R w (after_call c r f1 w) [(c, r)].
Proof. intros Hp Hr. split; [reflexivity|]. split; [constructor; [exact Hp | constructor] | exact Hr]. Qed.

Lemma DP_call_upd (R : fs -> fs -> Prop) c r f1 w t :
  plainc c = true -> R (w_fs w) f1 -> DP R w (after_call c r f1 (upd_tr t w)) [(c, r)].
Proof. intros Hp Hr. split; [reflexivity|]. split; [constructor; [exact Hp | constructor] | exact Hr]. Qed.

Lemma DP_upd_r (R : fs -> fs -> Prop) w w' l t : DP R w w' l -> DP R w (upd_tr t w') l.
Proof. intros H. exact H. Qed.
Lemma DP_upd_l (R : fs -> fs -> Prop) w w' l t : DP R (upd_tr t w) w' l -> DP R w w' l.
Proof. intros H. exact H. Qed.

Lemma DP_weaken (R R' : fs -> fs -> Prop) w w' l :
  (forall a b, R a b -> R' a b) -> DP R w w' l -> DP R' w w' l.
Proof. intros H [A [B C]]. split; [exact A|]. split; [exact B | apply H; exact C]. Qed.

(* ----- traces ----- *)

(* the head frame is none of the four messages file_store_loop catches *)
Definition uncatchable (fr : list frame) : Prop :=
  match fr with
  | FErrno _ :: _ => True
  | FStatic M_cannot_create_ancestor :: _ => True
  | FStatic M_cannot_remove_ancestor :: _ => True
  | _ => False
  end.

Definition trerr (w w' : world) : Prop :=
  t_pre (w_tr w') = t_pre (w_tr w) /\ t_post (w_tr w') = t_post (w_tr w) /\
  uncatchable (t_frames (w_tr w')).

Lemma uncatchable_notok t : uncatchable (t_frames t) -> tr_ok t = false.
Proof. unfold tr_ok. destruct (t_frames t); simpl; [tauto | reflexivity]. Qed.

Lemma trerr_notok w w' : trerr w w' -> tr_ok (w_tr w') = false.
Proof. intros [_ [_ H]]. apply uncatchable_notok. exact H. Qed.

(* ====================================================================== *)
(* 3. the programs, for every oracle                                      *)
(* ====================================================================== *)

(* ----- single calls ----- *)

Lemma k_mkdir_spec d o w :
  post (fun v w1 => exists r, w1 = after_call (CMkdir d) r (w_fs w1) w /\ retv v r /\
                              dirstep (w_fs w) (w_fs w1))
       (fun w1 => w1 = w) (k_mkdir d o w).
Proof.
  unfold k_mkdir. apply post_sys_unit; [reflexivity| |].
  - intros e. exists (RFault e). split; [reflexivity|]. split; [left; reflexivity | apply dirstep_refl].
  - intros e f' E. exists (err_ret e). split; [reflexivity|]. split; [apply retv_err_ret|].
    cbn [after_call w_fs]. destruct (mkdir_facts offp d (w_fs w) e f' E) as [A [B [C D]]].
    repeat split; assumption.
Qed.

Lemma k_rmdir_spec d o w :
  post (fun v w1 => exists r, w1 = after_call (CRmdir d) r (w_fs w1) w /\ dirstep (w_fs w) (w_fs w1))
       (fun w1 => w1 = w) (k_rmdir d o w).
Proof.
  unfold k_rmdir. apply post_sys_unit; [reflexivity| |].
  - intros e. exists (RFault e). split; [reflexivity | apply dirstep_refl].
  - intros e f' E. exists (err_ret e). split; [reflexivity|].
    cbn [after_call w_fs]. destruct (rmdir_facts offp d (w_fs w) e f' E) as [A [B [C D]]].
    repeat split; assumption.
Qed.

Lemma k_close_spec o w :
  post (fun v w1 => exists r, w1 = after_call CClose r (w_fs w) w /\ retv v r)
       (fun w1 => w1 = w) (k_close o w).
Proof.
  unfold k_close. apply post_sys_unit; [reflexivity| |].
  - intros e. exists (RFault e). split; [reflexivity | left; reflexivity].
  - intros e f' E. inversion E; subst. exists (RInt 0). split; reflexivity.
Qed.

(* ----- mkdir_all, create_parents ----- *)

Lemma bad_mkdir_ok d r v : retv v r -> match v with None | Some EEXIST => True | _ => False end ->
  bad (CMkdir d, r) = false.
Proof.
  destruct v as [e|]; unfold retv; intros H He.
  - destruct e; try contradiction. destruct H as [E|E]; rewrite E; reflexivity.
  - rewrite H. reflexivity.
Qed.

Definition mk_post (w : world) (w' : world) : Prop :=
  exists l, DP dirstep w w' l /\ ((w_tr w' = w_tr w /\ nobad l) \/ trerr w w').
Definition dir_crash (w w' : world) : Prop := exists l, DP dirstep w w' l.

Lemma mk_post_step d r f1 w w' :
  dirstep (w_fs w) f1 -> bad (CMkdir d, r) = false ->
  mk_post (after_call (CMkdir d) r f1 w) w' -> mk_post w w'.
Proof.
  intros Hd Hb [l [Hdp Ht]]. exists (l ++ [(CMkdir d, r)]). split.
  - eapply DP_trans; [apply dirstep_trans | apply DP_call; [reflexivity | exact Hd] | exact Hdp].
  - destruct Ht as [[T N]|T]; [left|right; exact T]. split; [exact T|].
    apply nobad_app. split; [exact N | apply nobad_one; exact Hb].
Qed.

Lemma dir_crash_step c r f1 w w' :
  plainc c = true -> dirstep (w_fs w) f1 -> dir_crash (after_call c r f1 w) w' -> dir_crash w w'.
Proof.
  intros Hp Hd [l Hdp]. exists (l ++ [(c, r)]).
  eapply DP_trans; [apply dirstep_trans | apply DP_call; [exact Hp | exact Hd] | exact Hdp].
Qed.

Lemma mkdir_all_spec ds : forall o w,
  post (fun _ w' => mk_post w w') (dir_crash w) (mkdir_all ds o w).
Proof.
  induction ds as [|d ds IH]; intros o w; cbn [mkdir_all].
  - apply post_ret. exists []. split; [apply DP_refl; apply dirstep_refl|]. left. split; [reflexivity | exact nobad_nil].
  - apply post_bind. eapply post_mono; [apply k_mkdir_spec| |].
    + intros v w1 [r [E [Hv Hd]]]. cbv beta. rewrite E. set (w1' := after_call _ _ _ _).
      assert (Hcont : bad (CMkdir d, r) = false ->
                      post (fun _ w' => mk_post w w') (dir_crash w) (mkdir_all ds o w1')).
      { intros Hb. eapply post_mono; [apply IH| |].
        - intros ? w' H. eapply mk_post_step; [exact Hd | exact Hb | exact H].
        - intros w' H. apply (dir_crash_step (CMkdir d) r (w_fs w1)); [reflexivity | exact Hd | exact H]. }
      assert (Hthrow : forall e,
                post (fun _ w' => mk_post w w') (dir_crash w)
                     ((throw_errno e;; throw_context d;; throw_static M_cannot_create_ancestor) o w1')).
      { intros e. unfold throw_errno, throw_context, throw_static. rewrite !bind_throw.
        cbn [post throw mod_tr bind get_tr set_tr].
        exists [(CMkdir d, r)]. split; [apply DP_upd_r, DP_call; [reflexivity | exact Hd]|].
        right. split; [reflexivity|]. split; [reflexivity | exact I]. }
      destruct v as [e|]; [destruct e|];
        first [ apply Hthrow | apply Hcont; eapply bad_mkdir_ok; [exact Hv | exact I] ].
    + intros w1 ->. exists []. apply DP_refl. apply dirstep_refl.
Qed.

Lemma create_parents_spec_all p o w :
  tr_ok (w_tr w) = true ->
  post (fun _ w' => mk_post w w') (dir_crash w) (create_parents p o w).
Proof.
  intros Hok. unfold create_parents, when_ok. rewrite bind_is_ok, Hok. apply mkdir_all_spec.
Qed.

(* ----- rmdir_up, remove_empty_parents, clean_up ----- *)

Lemma bad_rmdir d r : bad (CRmdir d, r) = false.
Proof. unfold bad. destruct r; reflexivity. Qed.
Lemma bad_close r : bad (CClose, r) = false.
Proof. unfold bad. destruct r; reflexivity. Qed.

Definition rm_post (w w' : world) : Prop :=
  exists l, DP dirstep w w' l /\ nobad l /\ (w_tr w' = w_tr w \/ trerr w w').

Lemma rm_post_step d r f1 w w' :
  dirstep (w_fs w) f1 -> rm_post (after_call (CRmdir d) r f1 w) w' -> rm_post w w'.
Proof.
  intros Hd [l [Hdp [N Ht]]]. exists (l ++ [(CRmdir d, r)]). split.
  - eapply DP_trans; [apply dirstep_trans | apply DP_call; [reflexivity | exact Hd] | exact Hdp].
  - split; [|exact Ht]. apply nobad_app. split; [exact N | apply nobad_one; apply bad_rmdir].
Qed.

Lemma rm_post_refl w : rm_post w w.
Proof.
  exists []. split; [apply DP_refl; apply dirstep_refl|]. split; [exact nobad_nil | left; reflexivity].
Qed.

Lemma rmdir_up_spec ds : forall o w,
  post (fun _ w' => rm_post w w') (dir_crash w) (rmdir_up ds o w).
Proof.
  induction ds as [|d ds IH]; intros o w; cbn [rmdir_up].
  - apply post_ret. apply rm_post_refl.
  - apply post_bind. eapply post_mono; [apply k_rmdir_spec| |].
    + intros v w1 [r [E Hd]]. cbv beta. rewrite E. set (w1' := after_call _ _ _ _).
      assert (Hcont : post (fun _ w' => rm_post w w') (dir_crash w) (rmdir_up ds o w1')).
      { eapply post_mono; [apply IH| |].
        - intros ? w' H. eapply rm_post_step; [exact Hd | exact H].
        - intros w' H. apply (dir_crash_step (CRmdir d) r (w_fs w1)); [reflexivity | exact Hd | exact H]. }
      assert (Hstop : post (fun _ w' => rm_post w w') (dir_crash w) (ret_ tt o w1')).
      { apply post_ret. eapply rm_post_step; [exact Hd | apply rm_post_refl]. }
      assert (Hthrow : forall e,
                post (fun _ w' => rm_post w w') (dir_crash w)
                     ((throw_errno e;; throw_context d;; throw_static M_cannot_remove_ancestor) o w1')).
      { intros e. unfold throw_errno, throw_context, throw_static. rewrite !bind_throw.
        cbn [post throw mod_tr bind get_tr set_tr].
        exists [(CRmdir d, r)]. split; [apply DP_upd_r, DP_call; [reflexivity | exact Hd]|].
        split; [apply nobad_one; apply bad_rmdir|].
        right. split; [reflexivity|]. split; [reflexivity | exact I]. }
      destruct v as [e|]; [destruct e|]; first [ apply Hthrow | exact Hcont | exact Hstop ].
    + intros w1 ->. exists []. apply DP_refl. apply dirstep_refl.
Qed.

Lemma remove_empty_parents_spec p o w :
  post (fun _ w' => rm_post w w') (dir_crash w) (remove_empty_parents p o w).
Proof.
  unfold remove_empty_parents, when_ok. rewrite bind_is_ok.
  destruct (tr_ok (w_tr w)); [apply rmdir_up_spec | apply post_ret; apply rm_post_refl].
Qed.

(* clean_up: the trace comes back as it was; its rmdir failures are dropped *)
Definition cl_post (w w' : world) : Prop :=
  exists l, DP dirstep w w' l /\ nobad l /\ w_tr w' = w_tr w.

Lemma clean_up_spec_all p o w :
  post (fun _ w' => cl_post w w') (dir_crash w) (clean_up p o w).
Proof.
  unfold clean_up. rewrite bind_get_tr, bind_set_tr.
  apply post_bind. eapply post_mono; [apply remove_empty_parents_spec| |].
  - intros ? w1 [l [Hdp [N _]]]. cbv beta. unfold set_tr. cbn [post].
    exists l. split; [exact Hdp|]. split; [exact N | reflexivity].
  - intros w1 [l Hdp]. exists l. exact Hdp.
Qed.

(* ----- generic wrappers ----- *)

Lemma sys_unit_spec c op o w :
  post (fun v w1 => exists r, w1 = after_call c r (w_fs w1) w /\ retv v r /\
                     ((exists e, r = RFault e /\ v = Some e /\ w_fs w1 = w_fs w) \/
                      (op (w_fs w) = (v, w_fs w1) /\ r = err_ret v)))
       (fun w1 => w1 = w) (sys_unit c op o w).
Proof.
  apply post_sys_unit; [reflexivity| |].
  - intros e. exists (RFault e). split; [reflexivity|]. split; [left; reflexivity|].
    left. exists e. auto.
  - intros e f' E. exists (err_ret e). split; [reflexivity|]. split; [apply retv_err_ret|].
    right. split; [exact E | reflexivity].
Qed.

Lemma open_gen_spec c op o w :
  post (fun v w1 => exists r, w1 = after_call c r (w_fs w1) w /\ reto v r /\
                     ((exists e, v = inr e /\ r = RFault e /\ w_fs w1 = w_fs w) \/
                      op (w_fs w) = (v, w_fs w1)))
       (fun w1 => w1 = w) (k_open_gen c op o w).
Proof.
  apply post_open_gen; [reflexivity| |].
  - intros e. exists (RFault e). split; [reflexivity|]. split; [left; reflexivity|].
    left. exists e. auto.
  - intros r f' E. eexists. split; [reflexivity|]. split.
    + destruct r; simpl; auto.
    + right. exact E.
Qed.

Lemma k_fstat_spec d o w :
  post (fun v w1 => exists r, w1 = after_call CFstat r (w_fs w) w /\ reto v r)
       (fun w1 => w1 = w) (k_fstat d o w).
Proof.
  unfold k_fstat. apply post_sys; [reflexivity| |].
  - intros e. exists (RFault e). split; [reflexivity | left; reflexivity].
  - intros r a f' E. inversion E; subst. exists (RInt 0). split; reflexivity.
Qed.

Lemma k_sendfile_spec out inp off count o w :
  post (fun v w1 => exists lim r, w1 = after_call (CSendfile off lim) r (w_fs w1) w /\ reto v r /\
                                  inostep out (w_fs w) (w_fs w1))
       (fun w1 => w1 = w) (k_sendfile out inp off count o w).
Proof.
  unfold k_sendfile. unfold bind at 1. unfold transfer_limit at 1.
  set (lim := match o (w_n w) with FShort n => _ | FChunk n => _ | _ => _ end).
  apply post_sys; [reflexivity| |].
  - intros e. exists lim, (RFault e). split; [reflexivity|]. split; [left; reflexivity | apply inostep_refl].
  - intros r a f' E. inversion E; subst. eexists lim, _. split; [reflexivity|].
    split; [reflexivity | apply inostep_append].
Qed.

(* ----- sendfile_loop ----- *)

Definition sf_post (out off : nat) (w : world) (r : option nat) (w' : world) : Prop :=
  exists l, DP (inostep out) w w' l /\
            ((exists off', r = Some off' /\ off <= off' /\ w_tr w' = w_tr w /\ nobad l) \/
             (r = None /\ trerr w w')).
Definition sf_crash (out : nat) (w w' : world) : Prop := exists l, DP (inostep out) w w' l.

Lemma sf_post_refl out off w : sf_post out off w (Some off) w.
Proof.
  exists []. split; [apply DP_refl; apply inostep_refl|]. left. exists off.
  split; [reflexivity|]. split; [lia|]. split; [reflexivity | exact nobad_nil].
Qed.

Lemma sendfile_loop_spec fuel : forall out inp off size o w,
  post (sf_post out off w) (sf_crash out w) (sendfile_loop fuel out inp off size o w).
Proof.
  induction fuel as [|fuel IH]; intros out inp off size o w; cbn [sendfile_loop].
  - apply post_ret. apply sf_post_refl.
  - destruct size as [|size']; [apply post_ret; apply sf_post_refl|].
    apply post_bind. eapply post_mono; [apply k_sendfile_spec| |].
    + intros v w1 [lim [r [E [Hr Hi]]]]. cbv beta. rewrite E. set (w1' := after_call _ _ _ _).
      assert (Hdp : DP (inostep out) w w1' [(CSendfile off lim, r)]).
      { apply DP_call; [reflexivity | exact Hi]. }
      destruct v as [n|e].
      * assert (Hb : bad (CSendfile off lim, r) = false).
        { unfold bad. cbn [snd fst]. simpl in Hr. rewrite Hr. reflexivity. }
        destruct n as [|n].
        -- apply post_ret. exists [(CSendfile off lim, r)]. split; [exact Hdp|]. left. exists off.
           split; [reflexivity|]. split; [lia|]. split; [reflexivity | apply nobad_one; exact Hb].
        -- eapply post_mono; [apply IH| |].
           ++ intros r' w' [l [Hdp' Hc]]. exists (l ++ [(CSendfile off lim, r)]).
              split; [eapply DP_trans; [apply inostep_trans | exact Hdp | exact Hdp']|].
              destruct Hc as [[off' [Er [Ho [Ht N]]]]|[Er Ht]]; [left|right].
              ** exists off'. split; [exact Er|]. split; [lia|]. split; [exact Ht|].
                 apply nobad_app. split; [exact N | apply nobad_one; exact Hb].
              ** split; [exact Er | exact Ht].
           ++ intros w' [l Hdp']. exists (l ++ [(CSendfile off lim, r)]).
              eapply DP_trans; [apply inostep_trans | exact Hdp | exact Hdp'].
      * unfold throw_errno. rewrite bind_throw. apply post_ret.
        exists [(CSendfile off lim, r)]. split; [apply DP_upd_r; exact Hdp|]. right.
        split; [reflexivity|]. split; [reflexivity|]. split; [reflexivity | exact I].
    + intros w1 ->. exists []. apply DP_refl. apply inostep_refl.
Qed.

(* ----- sync_file ----- *)

Section Sync.
Variables (dst : str).
Hypothesis dst_not_offp : dst <> offp.

(* the destination is gone again (or was never made) *)
Definition sync_fs_gone (f0 f' : fs) : Prop :=
  vdents offp f' = vdents offp f0 /\ keep None f0 f' /\ old_files f0 f'.
(* the destination is there, under a new inode *)
Definition sync_fs_new (f0 f' : fs) : Prop :=
  (exists i, vdents offp f' = vdents offp f0 ++ [(dst, NFile i)] /\
             lookup f' dst = Some (NFile i) /\ fs_next f0 <= i) /\
  keep None f0 f' /\ old_files f0 f'.
(* the unlink of the destination was failed by the oracle *)
Definition left_behind (l : list (call * ret)) : Prop := exists e, In (CUnlink dst, RFault e) l.
(* the two most recent calls: close of the source (any result), before it the
   close of the complete copy, which succeeded *)
Definition closes (l : list (call * ret)) : Prop :=
  exists r l', l = (CClose, r) :: (CClose, RInt 0) :: l'.

Definition sync_post (off : nat) (w : world) (n : nat) (w' : world) : Prop :=
  exists l, w_log w' = l ++ w_log w /\ Forall plain l /\
    t_pre (w_tr w') = t_pre (w_tr w) /\ t_post (w_tr w') = t_post (w_tr w) /\
    ( (* the copy is complete *)
      (t_frames (w_tr w') = [] /\ nobad l /\ off <= n /\ sync_fs_new (w_fs w) (w_fs w') /\ closes l)
      \/ (* an expected condition; nothing was created *)
      ((exists m, (m = M_src_missing \/ m = M_src_denied \/ m = M_dst_exists) /\
                  t_frames (w_tr w') = [FStatic m]) /\
       nobad l /\ n = 0 /\ sync_fs_gone (w_fs w) (w_fs w'))
      \/ (* the source is not a regular file *)
      (t_frames (w_tr w') = [FStatic M_not_regular] /\ nobad l /\ n = 0 /\
       (sync_fs_gone (w_fs w) (w_fs w') \/ (sync_fs_new (w_fs w) (w_fs w') /\ left_behind l)))
      \/ (* an error is on the trace *)
      (uncatchable (t_frames (w_tr w')) /\ n = 0 /\
       (sync_fs_gone (w_fs w) (w_fs w') \/ (sync_fs_new (w_fs w) (w_fs w') /\ left_behind l))) ).

Definition sync_crash (w w' : world) : Prop :=
  exists l, w_log w' = l ++ w_log w /\ Forall plain l /\
            (sync_fs_gone (w_fs w) (w_fs w') \/ sync_fs_new (w_fs w) (w_fs w')).

Lemma gone_of_dirstep f f' : dirstep f f' -> sync_fs_gone f f'.
Proof.
  intros [A [B [C D]]]. split; [exact A|]. split; [exact B | apply old_files_same; assumption].
Qed.

(* endings before the exclusive create *)
Lemma sync_post_nocreate_err off w w' l :
  DP dirstep w w' l -> trerr w w' -> sync_post off w 0 w'.
Proof.
  intros [A [B C]] [T1 [T2 T3]]. exists l. split; [exact A|]. split; [exact B|].
  split; [exact T1|]. split; [exact T2|]. right. right. right.
  split; [exact T3|]. split; [reflexivity|]. left. apply gone_of_dirstep. exact C.
Qed.

Lemma sync_post_nocreate_expected off w w' l m :
  t_frames (w_tr w) = [] ->
  DP dirstep w w' l -> w_tr w' = tr_push (FStatic m) (w_tr w) -> nobad l ->
  (m = M_src_missing \/ m = M_src_denied \/ m = M_dst_exists) -> sync_post off w 0 w'.
Proof.
  intros Hfr [A [B C]] T N Hm. exists l. split; [exact A|]. split; [exact B|].
  rewrite T. split; [reflexivity|]. split; [reflexivity|]. right. left.
  split; [exists m; split; [exact Hm|]; cbn [tr_push t_frames]; rewrite Hfr; reflexivity|].
  split; [exact N|]. split; [reflexivity|]. apply gone_of_dirstep. exact C.
Qed.

(* throw, clean up, return 0 *)
Lemma throw_cleanup_spec fr o w :
  post (fun n w' => n = 0 /\ exists l, DP dirstep w w' l /\ nobad l /\ w_tr w' = tr_push fr (w_tr w))
       (dir_crash w) ((throw fr;; clean_up dst;; ret_ 0) o w).
Proof.
  rewrite bind_throw. apply post_bind. eapply post_mono; [apply clean_up_spec_all| |].
  - intros ? w' [l [D [N T]]]. apply post_ret. split; [reflexivity|]. exists l.
    split; [exact D|]. split; [exact N | exact T].
  - intros w' [l D]. exists l. exact D.
Qed.

(* the state after the exclusive create, seen from the start w0 of sync_file *)
Definition CRE (w0 w : world) (out : nat) (l : list (call * ret)) : Prop :=
  w_log w = l ++ w_log w0 /\ Forall plain l /\
  old_files (w_fs w0) (w_fs w) /\ fs_next (w_fs w0) <= out /\
  exists fc, lookup fc dst = None /\ fs_dents (w_fs w) = fs_dents fc ++ [(dst, NFile out)] /\
             vdents offp fc = vdents offp (w_fs w0) /\ keep None (w_fs w0) fc.

Lemma CRE_upd w0 w out l t : CRE w0 w out l -> CRE w0 (upd_tr t w) out l.
Proof. intros H. exact H. Qed.

Lemma CRE_call w0 w out l c r :
  plainc c = true -> CRE w0 w out l -> CRE w0 (after_call c r (w_fs w) w) out ((c, r) :: l).
Proof.
  intros Hp [A [B [C [D E]]]]. split; [cbn [after_call w_log]; rewrite A; reflexivity|].
  split; [constructor; [exact Hp | exact B]|]. split; [exact C|]. split; [exact D | exact E].
Qed.

Lemma CRE_ino w0 w w' out l l' :
  CRE w0 w out l -> DP (inostep out) w w' l' -> CRE w0 w' out (l' ++ l).
Proof.
  intros [A [B [C [D [fc [E1 [E2 [E3 E4]]]]]]]] [A' [B' [I1 [I2 I3]]]].
  split; [rewrite A', A; apply app_assoc|]. split; [apply Forall_app; auto|].
  split.
  { destruct C as [C1 C2]. split; [lia|]. intros k Hk. rewrite I3 by lia. apply C2. exact Hk. }
  split; [exact D|]. exists fc. split; [exact E1|]. split; [rewrite I1; exact E2|]. auto.
Qed.

Lemma vd_new out fc : lookup fc dst = None -> filter (vd offp) [(dst, NFile out)] = [(dst, NFile out)].
Proof.
  intros Hl. destruct (lookup_nonroot_alookup fc dst Hl) as [_ Hr].
  assert (Hv : vd offp (dst, NFile out) = true).
  { unfold vd. cbn [fst snd nondir]. apply str_eqb_neq in Hr. rewrite Hr.
    pose proof dst_not_offp as Ho. apply str_eqb_neq in Ho. rewrite Ho. reflexivity. }
  cbn [filter]. rewrite Hv. reflexivity.
Qed.

Lemma CRE_new w0 w out l : CRE w0 w out l -> sync_fs_new (w_fs w0) (w_fs w).
Proof.
  intros [A [B [C [D [fc [E1 [E2 [E3 E4]]]]]]]].
  destruct (lookup_nonroot_alookup fc dst E1) as [Ha Hr].
  split; [exists out; split; [|split; [|exact D]]|split; [|exact C]].
  - unfold vdents. rewrite E2, filter_app. fold (vdents offp fc). rewrite E3, (vd_new out fc E1). reflexivity.
  - unfold lookup. apply str_eqb_neq in Hr. rewrite Hr, E2. apply alookup_app_new. exact Ha.
  - intros p n _ Hn Hl. pose proof (E4 p n (fun H => match H with eq_refl => I end) Hn Hl) as Hc.
    assert (Hp : p <> dst) by (intros ->; congruence).
    unfold lookup in *. destruct (str_eqb p root_path); [exact Hc|].
    rewrite E2, alookup_app_other by exact Hp. exact Hc.
Qed.

Lemma bad_unlink_dst r : bad (CUnlink dst, r) = false.
Proof.
  unfold bad. cbn [fst snd]. destruct (failed r); [|reflexivity]. cbn [reported_class].
  pose proof dst_not_offp as Ho. apply str_eqb_neq in Ho. rewrite Ho. reflexivity.
Qed.

Lemma gone_dirstep f0 f1 f2 : sync_fs_gone f0 f1 -> dirstep f1 f2 -> sync_fs_gone f0 f2.
Proof.
  intros [A [B C]] [A' [B' [C' D']]]. split; [congruence|]. split; [eapply keep_trans; eauto|].
  eapply old_files_trans; [exact C | apply old_files_same; assumption].
Qed.

Lemma new_dirstep f0 f1 f2 : sync_fs_new f0 f1 -> dirstep f1 f2 -> sync_fs_new f0 f2.
Proof.
  intros [[i [A1 [A2 A3]]] [B C]] [A' [B' [C' D']]]. split.
  - exists i. split; [congruence|]. split; [|exact A3].
    apply (B' dst (NFile i)); [discriminate | reflexivity | exact A2].
  - split; [eapply keep_trans; eauto|].
    eapply old_files_trans; [exact C | apply old_files_same; assumption].
Qed.

Definition tail_post (w0 : world) (l : list (call * ret)) (w : world) (n : nat) (w' : world) : Prop :=
  n = 0 /\ w_tr w' = w_tr w /\
  exists l', w_log w' = l' ++ w_log w0 /\ Forall plain l' /\ (nobad l -> nobad l') /\
             (sync_fs_gone (w_fs w0) (w_fs w') \/ (sync_fs_new (w_fs w0) (w_fs w') /\ left_behind l')).

Lemma CRE_crash w0 w out l : CRE w0 w out l -> sync_crash w0 w.
Proof.
  intros H. destruct H as [A [B C]] eqn:E. exists l. split; [exact A|]. split; [exact B|].
  right. eapply CRE_new. split; [exact A|]. split; [exact B | exact C].
Qed.

Lemma tail_spec w0 w out l o :
  CRE w0 w out l ->
  post (tail_post w0 l w) (sync_crash w0) ((k_unlink dst;; clean_up dst;; ret_ 0) o w).
Proof.
  intros Hc. apply post_bind. unfold k_unlink. eapply post_mono; [apply sys_unit_spec| |].
  - intros v w1 [r [E [Hv Hcase]]]. cbv beta.
    assert (Hfin : forall (G : fs -> Prop) l1,
               w_log w1 = l1 ++ w_log w0 -> Forall plain l1 -> (nobad l -> nobad l1) ->
               w_tr w1 = w_tr w ->
               (sync_fs_gone (w_fs w0) (w_fs w1) \/ (sync_fs_new (w_fs w0) (w_fs w1) /\ left_behind l1)) ->
               post (tail_post w0 l w) (sync_crash w0) ((clean_up dst;; ret_ 0) o w1)).
    { intros _ l1 L1 P1 N1 T1 F1. apply post_bind. eapply post_mono; [apply clean_up_spec_all| |].
      - intros ? w' [l3 [[D1 [D2 D3]] [N3 T3]]]. apply post_ret. split; [reflexivity|].
        split; [congruence|]. exists (l3 ++ l1). split; [rewrite D1, L1; apply app_assoc|].
        split; [apply Forall_app; auto|]. split; [intros N; apply nobad_app; auto|].
        destruct F1 as [F1|[F1 F2]]; [left; eapply gone_dirstep; eauto|right].
        split; [eapply new_dirstep; eauto|]. destruct F2 as [e F2]. exists e. apply in_or_app. right. exact F2.
      - intros w' [l3 [D1 [D2 D3]]]. exists (l3 ++ l1). split; [rewrite D1, L1; apply app_assoc|].
        split; [apply Forall_app; auto|].
        destruct F1 as [F1|[F1 F2]]; [left; eapply gone_dirstep; eauto | right; eapply new_dirstep; eauto]. }
    destruct Hc as [A [B [C [D [fc [E1 [E2 [E3 E4]]]]]]]].
    assert (L1 : w_log w1 = ((CUnlink dst, r) :: l) ++ w_log w0).
    { rewrite E. cbn [after_call w_log]. rewrite A. reflexivity. }
    assert (P1 : Forall plain ((CUnlink dst, r) :: l)) by (constructor; [reflexivity | exact B]).
    assert (N1 : nobad l -> nobad ((CUnlink dst, r) :: l)).
    { intros N. apply nobad_cons. split; [apply bad_unlink_dst | exact N]. }
    assert (T1 : w_tr w1 = w_tr w) by (rewrite E; reflexivity).
    apply (Hfin (fun _ => True) _ L1 P1 N1 T1).
    destruct Hcase as [[e [Er [Ev Ef]]]|[Ef Er]].
    + right. split.
      * rewrite Ef. apply (CRE_new w0 w out l). split; [exact A|]. split; [exact B|].
        split; [exact C|]. split; [exact D|]. exists fc. auto.
      * exists e. left. rewrite Er. reflexivity.
    + left. destruct (lookup_nonroot_alookup fc dst E1) as [Ha Hr].
      assert (Hl : lookup (w_fs w) dst = Some (NFile out)).
      { unfold lookup. apply str_eqb_neq in Hr. rewrite Hr, E2. apply alookup_app_new. exact Ha. }
      unfold fs_unlink in Ef. rewrite Hl in Ef. injection Ef as Ev Ef'.
      assert (Hd : fs_dents (w_fs w1) = fs_dents fc).
      { rewrite <- Ef'. cbn [del_dent fs_dents]. rewrite E2. apply aremove_app_new. exact Ha. }
      split; [rewrite (vdents_same_dents _ _ Hd); exact E3|]. split.
      * eapply keep_trans; [exact E4 | apply keep_same_dents; exact Hd].
      * eapply old_files_trans; [exact C|]. apply old_files_same; rewrite <- Ef'; reflexivity.
  - intros w1 ->. eapply CRE_crash. exact Hc.
Qed.

Lemma close_tail_spec w0 w out l o :
  CRE w0 w out l ->
  post (tail_post w0 l w) (sync_crash w0) ((k_close;; k_unlink dst;; clean_up dst;; ret_ 0) o w).
Proof.
  intros Hc. apply post_bind. eapply post_mono; [apply k_close_spec| |].
  - intros v w1 [r [E _]]. cbv beta. subst w1.
    eapply post_mono; [apply (tail_spec w0 _ out ((CClose, r) :: l)); apply CRE_call; [reflexivity | exact Hc]| |].
    + intros n w' [H1 [H2 [l' [H3 [H4 [H5 H6]]]]]]. split; [exact H1|]. split; [exact H2|].
      exists l'. split; [exact H3|]. split; [exact H4|]. split; [|exact H6].
      intros N. apply H5. apply nobad_cons. split; [apply bad_close | exact N].
    + auto.
  - intros w1 ->. eapply CRE_crash. exact Hc.
Qed.

Lemma close2_tail_spec w0 w out l o :
  CRE w0 w out l ->
  post (tail_post w0 l w) (sync_crash w0) ((k_close;; k_close;; k_unlink dst;; clean_up dst;; ret_ 0) o w).
Proof.
  intros Hc. apply post_bind. eapply post_mono; [apply k_close_spec| |].
  - intros v w1 [r [E _]]. cbv beta. subst w1.
    eapply post_mono; [apply (close_tail_spec w0 _ out ((CClose, r) :: l)); apply CRE_call; [reflexivity | exact Hc]| |].
    + intros n w' [H1 [H2 [l' [H3 [H4 [H5 H6]]]]]]. split; [exact H1|]. split; [exact H2|].
      exists l'. split; [exact H3|]. split; [exact H4|]. split; [|exact H6].
      intros N. apply H5. apply nobad_cons. split; [apply bad_close | exact N].
    + auto.
  - intros w1 ->. eapply CRE_crash. exact Hc.
Qed.

Lemma sync_post_of_tail off w0 l w n w' :
  tail_post w0 l w n w' ->
  t_pre (w_tr w) = t_pre (w_tr w0) -> t_post (w_tr w) = t_post (w_tr w0) ->
  ((t_frames (w_tr w) = [FStatic M_not_regular] /\ nobad l) \/ uncatchable (t_frames (w_tr w))) ->
  sync_post off w0 n w'.
Proof.
  intros [H1 [H2 [l' [H3 [H4 [H5 H6]]]]]] P1 P2 Hc. exists l'. split; [exact H3|]. split; [exact H4|].
  rewrite H2. split; [exact P1|]. split; [exact P2|]. right. right.
  destruct Hc as [[F N]|U]; [left|right].
  - split; [exact F|]. split; [apply H5; exact N|]. split; [exact H1 | exact H6].
  - split; [exact U|]. split; [exact H1 | exact H6].
Qed.

Lemma crash_of_dp w w' l : DP dirstep w w' l -> sync_crash w w'.
Proof.
  intros [A [B C]]. exists l. split; [exact A|]. split; [exact B|]. left. apply gone_of_dirstep. exact C.
Qed.

Lemma throw_close_cleanup_spec fr o w :
  post (fun n w' => n = 0 /\ exists l, DP dirstep w w' l /\ nobad l /\ w_tr w' = tr_push fr (w_tr w))
       (dir_crash w) ((throw fr;; k_close;; clean_up dst;; ret_ 0) o w).
Proof.
  rewrite bind_throw. apply post_bind. eapply post_mono; [apply k_close_spec| |].
  - intros v w1 [r [E _]]. cbv beta. subst w1.
    apply post_bind. eapply post_mono; [apply clean_up_spec_all| |].
    + intros ? w' [l [D [N T]]]. apply post_ret. split; [reflexivity|]. exists (l ++ [(CClose, r)]).
      split; [eapply DP_trans; [apply dirstep_trans | | exact D];
              apply DP_call_upd; [reflexivity | apply dirstep_refl]|].
      split; [apply nobad_app; split; [exact N | apply nobad_one; apply bad_close] | exact T].
    + intros w' [l D]. exists (l ++ [(CClose, r)]).
      eapply DP_trans; [apply dirstep_trans | | exact D].
      apply DP_call_upd; [reflexivity | apply dirstep_refl].
  - intros w1 ->. exists []. apply DP_upd_r. apply DP_refl. apply dirstep_refl.
Qed.

Lemma trerr_push_errno w e : trerr w (upd_tr (tr_push (FErrno e) (w_tr w)) w).
Proof. split; [reflexivity|]. split; [reflexivity | exact I]. Qed.

Theorem sync_file_spec src off o w :
  t_frames (w_tr w) = [] ->
  post (sync_post off w) (sync_crash w) (sync_file dst src off o w).
Proof.
  intros Hfr. assert (Hok : tr_ok (w_tr w) = true) by (unfold tr_ok; rewrite Hfr; reflexivity).
  unfold sync_file, when_ok. rewrite bind_is_ok, Hok.
  apply post_bind. eapply post_mono; [apply create_parents_spec_all; exact Hok| |];
    [|intros w1 [l D]; eapply crash_of_dp; exact D].
  intros ? w1 [l1 [D1 T1]]. cbv beta. rewrite bind_is_ok.
  destruct T1 as [[T1 N1]|T1].
  2: { rewrite (trerr_notok _ _ T1). cbn [negb].
       apply post_bind. eapply post_mono; [apply clean_up_spec_all| |].
       - intros ? w2 [l2 [D2 [N2 T2]]]. apply post_ret.
         apply (sync_post_nocreate_err off w w2 (l2 ++ l1)).
         + eapply DP_trans; [apply dirstep_trans | exact D1 | exact D2].
         + unfold trerr in *. rewrite T2. exact T1.
       - intros w2 [l2 D2]. apply (crash_of_dp w w2 (l2 ++ l1)).
         eapply DP_trans; [apply dirstep_trans | exact D1 | exact D2]. }
  rewrite T1, Hok. cbn [negb].
  apply post_bind. unfold k_open_read. eapply post_mono; [apply open_gen_spec| |];
    [|intros w2 ->; eapply crash_of_dp; exact D1].
  intros rin w2 [r2 [E2 [Hr2 Hc2]]]. cbv beta.
  assert (F2 : w_fs w2 = w_fs w1).
  { destruct Hc2 as [[e [_ [_ H]]]|H]; [exact H|]. injection H as _ H. symmetry. exact H. }
  assert (T2 : w_tr w2 = w_tr w) by (rewrite E2; exact T1).
  assert (D2 : DP dirstep w w2 ((COpenR src, r2) :: l1)).
  { apply (DP_trans dirstep w w1 w2 l1 [(COpenR src, r2)] dirstep_trans D1).
    rewrite E2, F2. apply DP_call; [reflexivity | apply dirstep_refl]. }
  destruct rin as [ind|e].
  2: { (* the open of the source failed *)
       assert (Hfin : forall fr,
                 ((exists m, fr = FStatic m /\ (m = M_src_missing \/ m = M_src_denied \/ m = M_dst_exists)) /\
                  bad (COpenR src, r2) = false) \/ (exists e', fr = FErrno e') ->
                 post (sync_post off w) (sync_crash w) ((throw fr;; clean_up dst;; ret_ 0) o w2)).
       { intros fr Hfrm. eapply post_mono; [apply throw_cleanup_spec| |].
         - intros n w' [-> [l [D [N T]]]].
           assert (D' : DP dirstep w w' (l ++ (COpenR src, r2) :: l1))
             by (eapply DP_trans; [apply dirstep_trans | exact D2 | exact D]).
           destruct Hfrm as [[[m [-> Hm]] Hb]|[e' ->]].
           + apply (sync_post_nocreate_expected off w w' _ m Hfr D'); [rewrite T, T2; reflexivity| |exact Hm].
             apply nobad_app. split; [exact N|]. apply nobad_cons. split; [exact Hb | exact N1].
           + apply (sync_post_nocreate_err off w w' _ D').
             unfold trerr. rewrite T, T2. split; [reflexivity|]. split; [reflexivity | exact I].
         - intros w' [l D]. eapply crash_of_dp.
           eapply DP_trans; [apply dirstep_trans | exact D2 | exact D]. }
       simpl in Hr2.
       destruct e; unfold throw_static, throw_errno; apply Hfin;
         first [ right; eexists; reflexivity
               | left; split; [eexists; split; [reflexivity | tauto] | rewrite (bad_failed _ _ _ Hr2); reflexivity] ]. }
  (* the source is open *)
  simpl in Hr2.
  assert (N2 : nobad ((COpenR src, r2) :: l1)).
  { apply nobad_cons. split; [unfold bad; cbn [fst snd]; rewrite Hr2; reflexivity | exact N1]. }
  apply post_bind. unfold k_open_excl. eapply post_mono; [apply open_gen_spec| |];
    [|intros w3 ->; eapply crash_of_dp; exact D2].
  intros rout w3 [r3 [E3 [Hr3 Hc3]]]. cbv beta.
  assert (T3 : w_tr w3 = w_tr w) by (rewrite E3; exact T2).
  destruct rout as [dout|e].
  2: { (* the exclusive create failed *)
       assert (F3 : w_fs w3 = w_fs w2).
       { destruct Hc3 as [[e' [_ [_ H]]]|H]; [exact H|].
         pose proof (create_excl_facts offp dst _ _ _ H) as Hf. simpl in Hf. exact Hf. }
       assert (D3 : DP dirstep w w3 ((COpenExcl dst, r3) :: (COpenR src, r2) :: l1)).
       { apply (DP_trans dirstep w w2 w3 _ [(COpenExcl dst, r3)] dirstep_trans D2).
         rewrite E3, F3. apply DP_call; [reflexivity | apply dirstep_refl]. }
       assert (Hfin : forall fr,
                 (fr = FStatic M_dst_exists /\ bad (COpenExcl dst, r3) = false) \/ (exists e', fr = FErrno e') ->
                 post (sync_post off w) (sync_crash w) ((throw fr;; k_close;; clean_up dst;; ret_ 0) o w3)).
       { intros fr Hfrm. eapply post_mono; [apply throw_close_cleanup_spec| |].
         - intros n w' [-> [l [D [N T]]]].
           assert (D' : DP dirstep w w' (l ++ (COpenExcl dst, r3) :: (COpenR src, r2) :: l1))
             by (eapply DP_trans; [apply dirstep_trans | exact D3 | exact D]).
           destruct Hfrm as [[-> Hb]|[e' ->]].
           + apply (sync_post_nocreate_expected off w w' _ M_dst_exists Hfr D');
               [rewrite T, T3; reflexivity| |tauto].
             apply nobad_app. split; [exact N|]. apply nobad_cons. split; [exact Hb | exact N2].
           + apply (sync_post_nocreate_err off w w' _ D').
             unfold trerr. rewrite T, T3. split; [reflexivity|]. split; [reflexivity | exact I].
         - intros w' [l D]. eapply crash_of_dp.
           eapply DP_trans; [apply dirstep_trans | exact D3 | exact D]. }
       simpl in Hr3.
       destruct e; unfold throw_static, throw_errno; apply Hfin;
         first [ right; eexists; reflexivity
               | left; split; [reflexivity | rewrite (bad_failed _ _ _ Hr3); reflexivity] ]. }
  (* the destination exists now *)
  destruct Hc3 as [[e' [H _]]|Hc3]; [discriminate|].
  pose proof (create_excl_facts offp dst _ _ _ Hc3) as Hf. cbv beta iota in Hf.
  destruct Hf as [Ed [Hl [Ef [_ [_ [Hold _]]]]]]. subst dout.
  set (out := fs_next (w_fs w2)) in *.
  set (l3 := (COpenExcl dst, r3) :: (COpenR src, r2) :: l1).
  assert (N3 : nobad l3).
  { apply nobad_cons. split; [|exact N2]. simpl in Hr3. unfold bad. cbn [fst snd]. rewrite Hr3. reflexivity. }
  destruct D2 as [L2 [P2 [V2 [K2 [FF2 FN2]]]]].
  assert (C3 : CRE w w3 out l3).
  { split; [rewrite E3; cbn [after_call w_log]; rewrite L2; reflexivity|].
    split; [constructor; [reflexivity | exact P2]|].
    split; [eapply old_files_trans; [apply old_files_same; [exact FF2 | exact FN2] | exact Hold]|].
    split; [unfold out; rewrite FN2; lia|].
    exists (w_fs w2). split; [exact Hl|]. split; [rewrite Ef; reflexivity|]. split; [exact V2 | exact K2]. }
  clearbody l3. clear L2 P2 V2 K2 FF2 FN2.
  apply post_bind. eapply post_mono; [apply k_fstat_spec| |];
    [|intros w4 ->; eapply CRE_crash; exact C3].
  intros st w4 [r4 [E4 Hr4]]. cbv beta.
  assert (C4 : CRE w w4 out ((CFstat, r4) :: l3)) by (rewrite E4; apply CRE_call; [reflexivity | exact C3]).
  assert (T4 : w_tr w4 = w_tr w) by (rewrite E4; exact T3).
  destruct st as [[isreg size]|e].
  2: { (* fstat failed *)
       unfold throw_errno. rewrite bind_throw.
       eapply post_mono; [apply (close2_tail_spec w _ out ((CFstat, r4) :: l3)); apply CRE_upd; exact C4| |auto].
       intros n w' Ht. apply (sync_post_of_tail off w _ _ n w' Ht); cbn [upd_tr w_tr tr_push t_pre t_post t_frames];
         [rewrite T4; reflexivity | rewrite T4; reflexivity | right; exact I]. }
  simpl in Hr4.
  assert (N4 : nobad ((CFstat, r4) :: l3)).
  { apply nobad_cons. split; [unfold bad; cbn [fst snd]; rewrite Hr4; reflexivity | exact N3]. }
  destruct isreg.
  2: { (* not a regular file *)
       unfold throw_static. rewrite bind_throw.
       eapply post_mono; [apply (close2_tail_spec w _ out ((CFstat, r4) :: l3)); apply CRE_upd; exact C4| |auto].
       intros n w' Ht. apply (sync_post_of_tail off w _ _ n w' Ht); cbn [upd_tr w_tr tr_push t_pre t_post t_frames];
         [rewrite T4; reflexivity | rewrite T4; reflexivity | left].
       split; [rewrite T4, Hfr; reflexivity | exact N4]. }
  (* the transfer *)
  apply post_bind. eapply post_mono; [apply sendfile_loop_spec| |];
    [|intros w5 [l5 D5]; eapply CRE_crash; eapply CRE_ino; [exact C4 | exact D5]].
  intros rs w5 [l5 [D5 Hs]]. cbv beta.
  assert (C5 : CRE w w5 out (l5 ++ (CFstat, r4) :: l3)) by (eapply CRE_ino; [exact C4 | exact D5]).
  destruct Hs as [[off' [-> [Ho [T5 N5]]]]|[-> T5]].
  2: { (* a transfer failed *)
       eapply post_mono; [apply (close2_tail_spec w _ out _ o C5)| |auto].
       intros n w' Ht. destruct T5 as [P5 [Q5 U5]].
       apply (sync_post_of_tail off w _ _ n w' Ht); [rewrite P5, T4; reflexivity | rewrite Q5, T4; reflexivity | right; exact U5]. }
  assert (T5' : w_tr w5 = w_tr w) by (rewrite T5; exact T4).
  assert (N5' : nobad (l5 ++ (CFstat, r4) :: l3)) by (apply nobad_app; split; assumption).
  apply post_bind. eapply post_mono; [apply k_close_spec| |];
    [|intros w6 ->; eapply CRE_crash; exact C5].
  intros v6 w6 [r6 [E6 Hv6]]. cbv beta.
  assert (C6 : CRE w w6 out ((CClose, r6) :: l5 ++ (CFstat, r4) :: l3))
    by (rewrite E6; apply CRE_call; [reflexivity | exact C5]).
  assert (T6 : w_tr w6 = w_tr w) by (rewrite E6; exact T5').
  destruct v6 as [e|].
  - (* the close of the copy failed *)
    unfold throw_errno. rewrite bind_throw.
    eapply post_mono; [apply (close_tail_spec w _ out _ o (CRE_upd _ _ _ _ _ C6))| |auto].
    intros n w' Ht. apply (sync_post_of_tail off w _ _ n w' Ht); cbn [upd_tr w_tr tr_push t_pre t_post t_frames];
      [rewrite T6; reflexivity | rewrite T6; reflexivity | right; exact I].
  - simpl in Hv6. subst r6.
    apply post_bind. eapply post_mono; [apply k_close_spec| |];
      [|intros w7 ->; eapply CRE_crash; exact C6].
    intros v7 w7 [r7 [E7 _]]. cbv beta. apply post_ret.
    assert (C7 : CRE w w7 out ((CClose, r7) :: (CClose, RInt 0) :: l5 ++ (CFstat, r4) :: l3))
      by (rewrite E7; apply CRE_call; [reflexivity | exact C6]).
    assert (T7 : w_tr w7 = w_tr w) by (rewrite E7; exact T6).
    pose proof C7 as [A7 [B7 _]].
    eexists. split; [exact A7|]. split; [exact B7|]. rewrite T7.
    split; [reflexivity|]. split; [reflexivity|]. left.
    split; [exact Hfr|]. split.
    { apply nobad_cons. split; [apply bad_close|]. apply nobad_cons. split; [reflexivity | exact N5']. }
    split; [exact Ho|]. split; [eapply CRE_new; exact C7|]. eexists _, _. reflexivity.
Qed.
End Sync.

(* ----- write_counter on the offset file ----- *)

Definition noshort0 (o : oracle) : Prop := forall i, o i <> FShort 0.

(* bytes of the offset file, if it is a file *)
Definition content (f : fs) : option str :=
  match lookup f offp with Some (NFile i) => Some (f_bytes (get_file f i)) | _ => None end.

(* what write_counter may do to the file system *)
Definition wstep (f f' : fs) : Prop := vdents offp f' = vdents offp f /\ keep (Some offp) f f'.

Lemma wstep_refl f : wstep f f.
Proof. split; [reflexivity | apply keep_refl]. Qed.
Lemma wstep_trans f0 f1 f2 : wstep f0 f1 -> wstep f1 f2 -> wstep f0 f2.
Proof. intros [A1 B1] [A2 B2]. split; [congruence | eapply keep_trans; eauto]. Qed.
Lemma wstep_of_dirstep f f' : dirstep f f' -> wstep f f'.
Proof. intros [A [B _]]. split; [exact A | apply keep_weaken; exact B]. Qed.
Lemma wstep_of_inostep i f f' : inostep i f f' -> wstep f f'.
Proof. intros [A _]. split; [apply vdents_same_dents; exact A | apply keep_same_dents; exact A]. Qed.

Lemma content_dirstep f f' : dirstep f f' -> content f = None \/ content f' = content f.
Proof.
  intros [_ [K [F _]]]. unfold content. destruct (lookup f offp) as [[|i|]|] eqn:E; auto.
  right. rewrite (K offp (NFile i) (fun H => match H with eq_refl => I end) eq_refl E).
  unfold get_file. rewrite F. reflexivity.
Qed.

Lemma vd_offp n : vd offp (offp, n) = false.
Proof. unfold vd. cbn [fst]. rewrite str_eqb_refl. apply andb_false_r. Qed.

Lemma open_create_facts f r f' :
  fs_open_create offp f = (r, f') ->
  match r with
  | inr _ => f' = f
  | inl d => exists i, d = FdFile i /\ lookup f' offp = Some (NFile i) /\ wstep f f' /\
                       ((lookup f offp = Some (NFile i) /\ f' = f) \/
                        (lookup f offp = None /\ get_file f' i = mkFile [] true))
  end.
Proof.
  unfold fs_open_create. destruct (lookup f offp) as [[|i|]|] eqn:El.
  - intros E. inversion E; subst. reflexivity.
  - intros E. inversion E; subst. exists i. split; [reflexivity|]. split; [exact El|].
    split; [apply wstep_refl|]. left. auto.
  - intros E. inversion E; subst. reflexivity.
  - intros E. pose proof (create_excl_facts offp offp f r f' E) as H. destruct r as [d|e]; [|exact H].
    destruct H as [Ed [_ [_ [V [K [_ [L G]]]]]]]. exists (fs_next f). split; [exact Ed|]. split; [exact L|].
    split.
    + split; [|apply keep_weaken; exact K]. rewrite V. cbn [filter]. rewrite vd_offp. apply app_nil_r.
    + right. auto.
Qed.

Lemma k_write1_spec i c o w :
  post (fun v w1 => exists lim r, w1 = after_call (CWrite lim) r (w_fs w1) w /\ reto v r /\
                      inostep i (w_fs w) (w_fs w1) /\
                      match v with
                      | inr _ => w_fs w1 = w_fs w
                      | inl _ => noshort0 o ->
                                 f_bytes (get_file (w_fs w1) i) = f_bytes (get_file (w_fs w) i) ++ [c]
                      end)
       (fun w1 => w1 = w) (k_write i [c] o w).
Proof.
  unfold k_write. unfold bind at 1. unfold transfer_limit at 1.
  set (lim := match o (w_n w) with FShort n => _ | FChunk n => _ | _ => _ end).
  apply post_sys; [reflexivity| |].
  - intros e. exists lim, (RFault e). split; [reflexivity|]. split; [left; reflexivity|].
    split; [apply inostep_refl | reflexivity].
  - intros r a f' E. inversion E; subst. eexists lim, _. split; [reflexivity|].
    split; [reflexivity|]. split; [apply inostep_append|].
    intros Hns. cbn [after_call w_fs]. rewrite get_file_append_same. cbn [f_bytes].
    assert (Hlim : lim = 1).
    { subst lim. cbn [length]. specialize (Hns (w_n w)). destruct (o (w_n w)) as [|e|n|n|]; try reflexivity.
      destruct n; [congruence | apply Nat.min_r; lia]. }
    rewrite Hlim. reflexivity.
Qed.

Lemma write_digits_notok i ds o w : tr_ok (w_tr w) = false -> write_digits i ds o w = (Some tt, w).
Proof. intros H. destruct ds; cbn [write_digits]; [reflexivity|]. rewrite bind_is_ok, H. reflexivity. Qed.

Definition wd_post (o : oracle) (i : nat) (ds : str) (w : world) (w' : world) : Prop :=
  exists l, DP (inostep i) w w' l /\
    ((w_tr w' = w_tr w /\ nobad l /\
      (noshort0 o -> f_bytes (get_file (w_fs w') i) = f_bytes (get_file (w_fs w) i) ++ ds)) \/
     (trerr w w' /\
      (noshort0 o -> exists k, f_bytes (get_file (w_fs w') i) = f_bytes (get_file (w_fs w) i) ++ firstn k ds))).

Lemma write_digits_spec i ds : forall o w,
  tr_ok (w_tr w) = true ->
  post (fun _ w' => wd_post o i ds w w') (fun w' => exists l, DP (inostep i) w w' l) (write_digits i ds o w).
Proof.
  induction ds as [|c ds IH]; intros o w Hok; cbn [write_digits].
  - apply post_ret. exists []. split; [apply DP_refl; apply inostep_refl|]. left.
    split; [reflexivity|]. split; [exact nobad_nil|]. intros _. rewrite app_nil_r. reflexivity.
  - rewrite bind_is_ok, Hok. apply post_bind. eapply post_mono; [apply k_write1_spec| |].
    + intros v w1 [lim [r [E [Hr [Hi Hv]]]]]. cbv beta.
      assert (Hdp : DP (inostep i) w w1 [(CWrite lim, r)]) by (rewrite E; apply DP_call; [reflexivity | exact Hi]).
      destruct v as [n|e].
      * assert (Hb : bad (CWrite lim, r) = false).
        { unfold bad. cbn [snd fst]. simpl in Hr. rewrite Hr. reflexivity. }
        assert (T1 : w_tr w1 = w_tr w) by (rewrite E; reflexivity).
        eapply post_mono; [apply IH; rewrite T1; exact Hok| |].
        -- intros ? w' [l [Hdp' Hc]]. exists (l ++ [(CWrite lim, r)]).
           split; [eapply DP_trans; [apply inostep_trans | exact Hdp | exact Hdp']|].
           destruct Hc as [[Ht [N Hb']]|[Ht Hb']]; [left|right].
           ++ split; [congruence|]. split; [apply nobad_app; split; [exact N | apply nobad_one; exact Hb]|].
              intros Hns. rewrite (Hb' Hns), (Hv Hns), <- app_assoc. reflexivity.
           ++ split; [unfold trerr in *; rewrite <- T1; exact Ht|].
              intros Hns. destruct (Hb' Hns) as [k Hk]. exists (S k).
              rewrite Hk, (Hv Hns), <- app_assoc. reflexivity.
        -- intros w' [l Hdp']. exists (l ++ [(CWrite lim, r)]).
           eapply DP_trans; [apply inostep_trans | exact Hdp | exact Hdp'].
      * unfold throw_errno, throw, mod_tr, bind, get_tr, set_tr. cbn [post].
        assert (T1 : w_tr w1 = w_tr w) by (rewrite E; reflexivity).
        exists [(CWrite lim, r)]. split; [exact Hdp|]. right. split.
        -- unfold trerr. cbn [w_tr tr_push t_pre t_post t_frames]. rewrite T1.
           split; [reflexivity|]. split; [reflexivity | exact I].
        -- intros _. exists 0. cbn [firstn w_fs]. rewrite Hv, app_nil_r. reflexivity.
    + intros w1 ->. exists []. apply DP_refl. apply inostep_refl.
Qed.

(* after a failed position update: there was no readable position before, or
   it is unchanged, or it is a prefix of the digits of the new one (K1) *)
Definition posfail (counter : N) (f f' : fs) : Prop :=
  content f = None \/ content f' = content f \/ exists k, content f' = Some (firstn k (dec counter)).

Definition wc_post (o : oracle) (counter : N) (w w' : world) : Prop :=
  exists l, DP wstep w w' l /\
    ((w_tr w' = w_tr w /\ nobad l /\
      (counter <> 0%N -> noshort0 o -> content (w_fs w') = Some (dec counter))) \/
     (trerr w w' /\ (counter <> 0%N -> noshort0 o -> posfail counter (w_fs w) (w_fs w')))).
Definition wc_crash (w w' : world) : Prop := exists l, DP wstep w w' l.

Lemma content_same_dents f f' i :
  fs_dents f' = fs_dents f -> lookup f offp = Some (NFile i) ->
  content f' = Some (f_bytes (get_file f' i)).
Proof. intros Hd Hl. unfold content. rewrite (lookup_same_dents _ _ offp Hd), Hl. reflexivity. Qed.

Theorem write_counter_spec counter o w :
  tr_ok (w_tr w) = true ->
  post (fun _ w' => wc_post o counter w w') (wc_crash w) (write_counter offp counter o w).
Proof.
  intros Hok. unfold write_counter, when_ok. rewrite bind_is_ok, Hok.
  destruct (counter =? 0)%N eqn:Ez.
  - (* the position is 0: the offset file is removed *)
    assert (Hz : counter = 0%N) by (apply N.eqb_eq; exact Ez).
    apply post_bind. unfold k_unlink. eapply post_mono; [apply sys_unit_spec| |];
      [|intros w1 ->; exists []; apply DP_refl; apply wstep_refl].
    intros v w1 [r [E [Hv Hcase]]]. cbv beta.
    assert (W1 : wstep (w_fs w) (w_fs w1)).
    { destruct Hcase as [[e [_ [_ F]]]|[F _]]; [rewrite F; apply wstep_refl|].
      destruct (unlink_facts offp offp _ _ _ F) as [_ [_ [L V]]]. split; [apply V; reflexivity|].
      intros p n Hp _ Hl. rewrite L; [exact Hl | intros ->; apply Hp; reflexivity]. }
    assert (D1 : DP wstep w w1 [(CUnlink offp, r)]) by (rewrite E; apply DP_call; [reflexivity | exact W1]).
    assert (T1 : w_tr w1 = w_tr w) by (rewrite E; reflexivity).
    assert (Hthrow : forall e, post (fun _ w' => wc_post o counter w w') (wc_crash w) (throw_errno e o w1)).
    { intros e. unfold throw_errno, throw, mod_tr, bind, get_tr, set_tr. cbn [post].
      exists [(CUnlink offp, r)]. split; [exact D1|]. right. split.
      - unfold trerr. cbn [w_tr tr_push t_pre t_post t_frames]. rewrite T1.
        split; [reflexivity|]. split; [reflexivity | exact I].
      - intros Hc. contradiction. }
    destruct v as [e|].
    + assert (Hen : e = ENOENT -> post (fun _ w' => wc_post o counter w w') (wc_crash w) (ret_ tt o w1)).
      { intros ->. apply post_ret. exists [(CUnlink offp, r)]. split; [exact D1|]. left.
        split; [exact T1|]. split; [|intros Hc; contradiction].
        apply nobad_one. rewrite (bad_failed _ _ _ Hv). cbn [reported_class]. apply andb_false_r. }
      destruct e; first [apply Hen; reflexivity | apply Hthrow].
    + simpl in Hv. subst r.
      eapply post_mono; [apply remove_empty_parents_spec| |].
      * intros ? w' [l [D [N Ht]]]. exists (l ++ [(CUnlink offp, RInt 0)]).
        split; [eapply DP_trans; [apply wstep_trans | exact D1 | eapply DP_weaken; [apply wstep_of_dirstep | exact D]]|].
        destruct Ht as [Ht|Ht]; [left|right].
        -- split; [congruence|]. split; [|intros Hc; contradiction].
           apply nobad_app. split; [exact N | apply nobad_one; reflexivity].
        -- split; [unfold trerr in *; rewrite <- T1; exact Ht | intros Hc; contradiction].
      * intros w' [l D]. exists (l ++ [(CUnlink offp, RInt 0)]).
        eapply DP_trans; [apply wstep_trans | exact D1 | eapply DP_weaken; [apply wstep_of_dirstep | exact D]].
  - (* a positive position is written *)
    apply post_bind. eapply post_mono; [apply create_parents_spec_all; exact Hok| |];
      [|intros w1 [l D]; exists l; eapply DP_weaken; [apply wstep_of_dirstep | exact D]].
    intros ? w1 [l1 [D1 T1]]. cbv beta. rewrite bind_is_ok.
    assert (D1' : DP wstep w w1 l1) by (eapply DP_weaken; [apply wstep_of_dirstep | exact D1]).
    assert (Hc1 : content (w_fs w) = None \/ content (w_fs w1) = content (w_fs w)).
    { destruct D1 as [_ [_ D1]]. apply content_dirstep. exact D1. }
    destruct T1 as [[T1 N1]|T1].
    2: { rewrite (trerr_notok _ _ T1). apply post_ret. exists l1. split; [exact D1'|]. right.
         split; [exact T1|]. intros _ _. destruct Hc1 as [H|H]; [left; exact H | right; left; exact H]. }
    rewrite T1, Hok.
    apply post_bind. unfold k_open_w. eapply post_mono; [apply open_gen_spec| |];
      [|intros w2 ->; exists l1; exact D1'].
    intros rw w2 [r2 [E2 [Hr2 Hc2]]]. cbv beta.
    assert (T2 : w_tr w2 = w_tr w) by (rewrite E2; exact T1).
    destruct rw as [d|e].
    2: { (* the open failed *)
         assert (F2 : w_fs w2 = w_fs w1).
         { destruct Hc2 as [[e' [_ [_ H]]]|H]; [exact H|]. exact (open_create_facts _ _ _ H). }
         unfold throw_errno, throw, mod_tr, bind, get_tr, set_tr. cbn [post].
         exists ((COpenW offp, r2) :: l1). split.
         - apply (DP_trans wstep w w1 _ l1 [(COpenW offp, r2)] wstep_trans D1').
           rewrite E2, F2. apply DP_call_upd; [reflexivity | apply wstep_refl].
         - right. split.
           + unfold trerr. cbn [w_tr tr_push t_pre t_post t_frames]. rewrite T2.
             split; [reflexivity|]. split; [reflexivity | exact I].
           + intros _ _. cbn [w_fs]. rewrite F2.
             destruct Hc1 as [H|H]; [left; exact H | right; left; exact H]. }
    destruct Hc2 as [[e' [H _]]|Hc2]; [discriminate|].
    destruct (open_create_facts _ _ _ Hc2) as [i [-> [L2 [W2 Hnew]]]].
    assert (D2 : DP wstep w w2 ((COpenW offp, r2) :: l1)).
    { apply (DP_trans wstep w w1 w2 l1 [(COpenW offp, r2)] wstep_trans D1').
      rewrite E2. apply DP_call; [reflexivity | exact W2]. }
    assert (N2 : nobad ((COpenW offp, r2) :: l1)).
    { apply nobad_cons. split; [|exact N1]. simpl in Hr2. unfold bad. cbn [fst snd]. rewrite Hr2. reflexivity. }
    (* the bytes before the update, as far as they matter *)
    assert (Hc2' : content (w_fs w) = None \/ content (w_fs w2) = content (w_fs w)).
    { destruct Hc1 as [H|H]; [left; exact H|]. destruct Hnew as [[_ F]|[Ln _]].
      - right. rewrite F. exact H.
      - left. rewrite <- H. unfold content. rewrite Ln. reflexivity. }
    clear Hc1 Hnew Hc2.
    apply post_bind. unfold k_ftruncate. eapply post_mono; [apply sys_unit_spec| |];
      [|intros w3 ->; eexists; exact D2].
    intros vt w3 [r3 [E3 [Hv3 Hc3]]]. cbv beta.
    assert (T3 : w_tr w3 = w_tr w) by (rewrite E3; exact T2).
    assert (I3 : inostep i (w_fs w2) (w_fs w3)).
    { destruct Hc3 as [[e [_ [_ F]]]|[F _]]; [rewrite F; apply inostep_refl|].
      injection F as _ F. rewrite <- F. split; [reflexivity|]. split; [reflexivity|].
      intros k Hk. unfold fs_truncate, set_file, get_file. cbn [fs_files].
      rewrite nlookup_nupdate_other by exact Hk. reflexivity. }
    assert (D3 : DP wstep w w3 ((CFtruncate, r3) :: (COpenW offp, r2) :: l1)).
    { apply (DP_trans wstep w w2 w3 _ [(CFtruncate, r3)] wstep_trans D2).
      rewrite E3. apply DP_call; [reflexivity | apply (wstep_of_inostep i); exact I3]. }
    assert (L3 : lookup (w_fs w3) offp = Some (NFile i)).
    { destruct I3 as [Hd _]. rewrite (lookup_same_dents _ _ offp Hd). exact L2. }
    destruct vt as [e|].
    + (* ftruncate failed: nothing is written *)
      unfold throw_errno. rewrite bind_throw.
      set (w3' := upd_tr _ w3).
      assert (Hno : tr_ok (w_tr w3') = false) by reflexivity.
      cbv beta. unfold bind at 1. rewrite (write_digits_notok i _ o w3' Hno).
      apply post_bind. eapply post_mono; [apply k_close_spec| |]; [|intros w4 ->; eexists; exact D3].
      intros v4 w4 [r4 [E4 _]]. cbv beta. apply post_ret.
      exists ((CClose, r4) :: (CFtruncate, r3) :: (COpenW offp, r2) :: l1). split.
      * apply (DP_trans wstep w w3 _ _ [(CClose, r4)] wstep_trans D3).
        rewrite E4. apply DP_call_upd; [reflexivity | apply wstep_refl].
      * right. split.
        -- unfold trerr. rewrite E4. cbn [after_call upd_tr w3' w_tr tr_push t_pre t_post t_frames]. rewrite T3.
           split; [reflexivity|]. split; [reflexivity | exact I].
        -- intros _ _. rewrite E4. cbn [after_call w_fs upd_tr w3'].
           destruct Hc3 as [[e' [_ [_ F]]]|[F _]]; [|discriminate F].
           rewrite F. destruct Hc2' as [H|H]; [left; exact H | right; left; exact H].
    + (* truncated: the digits *)
      rewrite bind_ret.
      assert (B3 : f_bytes (get_file (w_fs w3) i) = []).
      { destruct Hc3 as [[e [_ [H _]]]|[F _]]; [discriminate|]. injection F as F. rewrite <- F.
        unfold fs_truncate, set_file, get_file. cbn [fs_files]. rewrite nlookup_nupdate_same. reflexivity. }
      assert (N3 : nobad ((CFtruncate, r3) :: (COpenW offp, r2) :: l1)).
      { apply nobad_cons. split; [|exact N2]. simpl in Hv3. subst r3. reflexivity. }
      apply post_bind. eapply post_mono; [apply write_digits_spec; rewrite T3; exact Hok| |];
        [|intros w4 [l4 D4]; eexists; eapply DP_trans; [apply wstep_trans | exact D3 |
                                                         eapply DP_weaken; [apply (wstep_of_inostep i) | exact D4]]].
      intros ? w4 [l4 [D4 Hw]]. cbv beta.
      assert (D4' : DP wstep w w4 (l4 ++ (CFtruncate, r3) :: (COpenW offp, r2) :: l1)).
      { eapply DP_trans; [apply wstep_trans | exact D3 | eapply DP_weaken; [apply (wstep_of_inostep i) | exact D4]]. }
      assert (L4 : fs_dents (w_fs w4) = fs_dents (w_fs w3)) by (destruct D4 as [_ [_ [H _]]]; exact H).
      apply post_bind. eapply post_mono; [apply k_close_spec| |]; [|intros w5 ->; eexists; exact D4'].
      intros v5 w5 [r5 [E5 _]]. cbv beta. apply post_ret.
      exists ((CClose, r5) :: l4 ++ (CFtruncate, r3) :: (COpenW offp, r2) :: l1). split.
      * apply (DP_trans wstep w w4 _ _ [(CClose, r5)] wstep_trans D4').
        rewrite E5. apply DP_call; [reflexivity | apply wstep_refl].
      * assert (C5 : content (w_fs w5) = Some (f_bytes (get_file (w_fs w4) i))).
        { rewrite E5. cbn [after_call w_fs]. apply (content_same_dents (w_fs w3)); [exact L4 | exact L3]. }
        destruct Hw as [[T4 [N4 B4]]|[T4 B4]]; [left|right].
        -- split; [rewrite E5; cbn [after_call w_tr]; congruence|]. split.
           ++ apply nobad_cons. split; [apply bad_close|]. apply nobad_app. split; assumption.
           ++ intros _ Hns. rewrite C5, (B4 Hns), B3. reflexivity.
        -- split.
           ++ unfold trerr in *. rewrite E5. cbn [after_call w_tr]. rewrite <- T3. exact T4.
           ++ intros _ Hns. right. right. destruct (B4 Hns) as [k Hk]. exists k.
              rewrite C5, Hk, B3. reflexivity.
Qed.

Lemma write_counter_notok c o w : tr_ok (w_tr w) = false -> write_counter offp c o w = (Some tt, w).
Proof. intros H. unfold write_counter, when_ok. rewrite bind_is_ok, H. reflexivity. Qed.

(* ----- the catches ----- *)

Definition caught_msg (m : msg) : Prop :=
  m = M_src_missing \/ m = M_not_regular \/ m = M_src_denied \/ m = M_dst_exists.

Lemma catch_nil m t : t_frames t = [] -> tr_catch_static m t = (false, t).
Proof. intros H. unfold tr_catch_static. rewrite H. destruct (t_post t =? 0); reflexivity. Qed.

Lemma catch_single m m' t :
  t_frames t = [FStatic m'] -> t_post t = 0 ->
  tr_catch_static m t = if msg_eqb m m' then (true, mkTr [] (t_pre t) 0) else (false, t).
Proof. intros H P. unfold tr_catch_static. rewrite H, P. cbn [Nat.eqb]. destruct (msg_eqb m m'); reflexivity. Qed.

Lemma catch_uncatchable m t : uncatchable (t_frames t) -> caught_msg m -> tr_catch_static m t = (false, t).
Proof.
  intros H Hm. unfold tr_catch_static. destruct (t_post t =? 0); [|reflexivity].
  destruct (t_frames t) as [|[m'| | |] fr]; try reflexivity.
  destruct m'; try contradiction; destruct Hm as [->|[->|[->| ->]]]; reflexivity.
Qed.

Lemma gone_gone f0 f1 f2 : sync_fs_gone f0 f1 -> sync_fs_gone f1 f2 -> sync_fs_gone f0 f2.
Proof.
  intros [A [B C]] [A' [B' C']]. split; [congruence|]. split; [eapply keep_trans; eauto|].
  eapply old_files_trans; eauto.
Qed.

Lemma gone_new dst f0 f1 f2 : sync_fs_gone f0 f1 -> sync_fs_new dst f1 f2 -> sync_fs_new dst f0 f2.
Proof.
  intros [A [B C]] [[i [A1 [A2 A3]]] [B' C']]. split.
  - exists i. split; [congruence|]. split; [exact A2|]. destruct C as [C _]. lia.
  - split; [eapply keep_trans; eauto | eapply old_files_trans; eauto].
Qed.

(* ----- file_store_loop ----- *)

Section Loop.
Variables (cfg : config) (head : str) (off : nat) (ish : bool).

Definition same_names (sp sp' : store_path) : Prop :=
  sp_base sp' = sp_base sp /\ sp_ext sp' = sp_ext sp.

(* the version is in the store; then the position update ran *)
Definition versioned (o : oracle) (failed_update : bool) (dst : str) (f f' : fs) : Prop :=
  exists f1 no, sync_fs_new dst f f1 /\ wstep f1 f' /\ off <= no /\
    let n := N.of_nat (if ish then no else 0) in
    (n <> 0%N -> noshort0 o ->
     if failed_update then posfail n f1 f' else content f' = Some (dec n)).

Definition undone (dst : str) (l : list (call * ret)) (f f' : fs) : Prop :=
  sync_fs_gone f f' \/ (sync_fs_new dst f f' /\ left_behind dst l).

Inductive outcome := OStored | OAbandoned | OExhausted | OCopyFailed | OPositionFailed.

Definition fsl_post (o : oracle) (fuel : nat) (sp : store_path) (w : world)
           (res : option str * bool * store_path) (w' : world) : Prop :=
  let '(ev, stored, sp') := res in
  let dst := current_path sp' in
  exists l, w_log w' = l ++ w_log w /\ Forall plain l /\ t_post (w_tr w') = 0 /\ same_names sp sp' /\
  exists oc : outcome,
    match oc with
    | OStored =>
        tr_ok (w_tr w') = true /\ stored = true /\ ev = c_ev_stored cfg /\ nobad l /\
        versioned o false dst (w_fs w) (w_fs w')
    | OAbandoned =>
        tr_ok (w_tr w') = true /\ stored = false /\ (ev = c_ev_deleted cfg \/ ev = c_ev_forbidden cfg) /\
        nobad l /\ undone dst l (w_fs w) (w_fs w')
    | OExhausted =>
        tr_ok (w_tr w') = true /\ stored = false /\ ev = c_ev_stored cfg /\ nobad l /\
        sync_fs_gone (w_fs w) (w_fs w') /\ sp_dups sp' = (sp_dups sp + N.of_nat fuel)%N
    | OCopyFailed =>
        tr_ok (w_tr w') = false /\ stored = false /\ undone dst l (w_fs w) (w_fs w')
    | OPositionFailed =>
        tr_ok (w_tr w') = false /\ stored = false /\ versioned o true dst (w_fs w) (w_fs w')
    end.

Definition fsl_crash (w w' : world) : Prop :=
  exists l, w_log w' = l ++ w_log w /\ Forall plain l /\
            exists x, vdents offp (w_fs w') = vdents offp (w_fs w) ++ x /\ keep (Some offp) (w_fs w) (w_fs w').

Lemma crash_of_sync dst w w' : sync_crash dst w w' -> fsl_crash w w'.
Proof.
  intros [l [A [B C]]]. exists l. split; [exact A|]. split; [exact B|].
  destruct C as [[V [K _]]|[[i [V _]] [K _]]].
  - exists []. rewrite app_nil_r. split; [exact V | apply keep_weaken; exact K].
  - eexists. split; [exact V | apply keep_weaken; exact K].
Qed.

Lemma fsl_crash_trans w w1 w' l :
  w_log w1 = l ++ w_log w -> Forall plain l -> sync_fs_gone (w_fs w) (w_fs w1) ->
  fsl_crash w1 w' -> fsl_crash w w'.
Proof.
  intros A B [V [K _]] [l' [A' [B' [x [V' K']]]]]. exists (l' ++ l).
  split; [rewrite A', A; apply app_assoc|]. split; [apply Forall_app; auto|].
  exists x. split; [rewrite V', V; reflexivity|]. eapply keep_trans; [apply keep_weaken; exact K | exact K'].
Qed.

Lemma tr_finally_post0 t : t_post t = 0 -> t_post (tr_finally t) = 0 /\ t_frames (tr_finally t) = t_frames t.
Proof. intros H. unfold tr_finally, tr_decrement. rewrite H. split; reflexivity. Qed.

Lemma finally_ret {A} (x : A) o w (Q : A -> world -> Prop) C :
  Q x (upd_tr (tr_finally (w_tr w)) w) -> post Q C ((finally_;; ret_ x) o w).
Proof. intros H. unfold finally_. rewrite bind_mod_tr. exact H. Qed.

Lemma sp_names_increment sp : same_names sp (increment sp).
Proof. split; reflexivity. Qed.

Ltac cstep H :=
  rewrite bind_catch_static, H; cbn [msg_eqb fst snd]; rewrite ?upd_tr_same, ?bind_ret; cbv iota.

Theorem file_store_loop_spec o fuel : forall sp w,
  (forall k, current_path (mkSP (sp_base sp) (sp_ext sp) k) <> offp) ->
  t_frames (w_tr w) = [] -> t_post (w_tr w) = 0 ->
  post (fsl_post o fuel sp w) (fsl_crash w) (file_store_loop fuel sp head offp off ish cfg o w).
Proof.
  induction fuel as [|fuel IH]; intros sp w Hne Hfr Hpo; cbn [file_store_loop].
  - apply post_ret. unfold fsl_post. exists []. split; [reflexivity|]. split; [constructor|].
    split; [exact Hpo|]. split; [split; reflexivity|]. exists OExhausted.
    split; [unfold tr_ok; rewrite Hfr; reflexivity|]. split; [reflexivity|]. split; [reflexivity|].
    split; [exact nobad_nil|]. split; [|cbn; lia].
    split; [reflexivity|]. split; [apply keep_refl | apply old_files_refl].
  - assert (Hdst : current_path sp <> offp).
    { specialize (Hne (sp_dups sp)). destruct sp; exact Hne. }
    unfold try_. rewrite bind_mod_tr.
    set (wa := upd_tr (tr_try (w_tr w)) w).
    assert (Hfa : t_frames (w_tr wa) = []).
    { unfold wa, tr_try, tr_ok. cbn [upd_tr w_tr]. rewrite Hfr. reflexivity. }
    assert (Hpa : t_post (w_tr wa) = 0).
    { unfold wa, tr_try, tr_ok. cbn [upd_tr w_tr]. rewrite Hfr. cbn [t_post]. exact Hpo. }
    apply post_bind. eapply post_mono; [apply (sync_file_spec (current_path sp) Hdst head off o wa Hfa)| |];
      [|intros w' H; apply (crash_of_sync (current_path sp) wa w' H)].
    intros no w1 [l1 [L1 [P1 [TP1 [TQ1 Hcase]]]]]. cbv beta zeta.
    assert (Q1 : t_post (w_tr w1) = 0) by (rewrite TQ1; exact Hpa).
    change (w_log wa) with (w_log w) in L1. change (w_fs wa) with (w_fs w) in Hcase.
    destruct Hcase as [[F1 [N1 [Ho [Hnew Hcl]]]]|[[[m [Hm F1]] [N1 [Hn Hg]]]|[[F1 [N1 [Hn Hu]]]|[U1 [Hn Hu]]]]].
    + (* the copy is complete: update the position *)
      pose proof (fun m => catch_nil m _ F1) as Hn. do 4 (cstep Hn). clear Hn.
      assert (Hok1 : tr_ok (w_tr w1) = true) by (unfold tr_ok; rewrite F1; reflexivity).
      apply post_bind. eapply post_mono; [apply (write_counter_spec _ o w1 Hok1)| |].
      * intros ? w2 [l2 [[L2 [P2 W2]] Hw]]. cbv beta. rewrite bind_is_ok. apply finally_ret.
        unfold fsl_post. exists (l2 ++ l1). rewrite upd_tr_log. split; [rewrite L2, L1; apply app_assoc|].
        split; [apply Forall_app; auto|]. cbn [upd_tr w_tr w_fs].
        destruct Hw as [[T2 [N2 Hc]]|[T2 Hc]].
        -- rewrite T2, Hok1.
           destruct (tr_finally_post0 (w_tr w1) Q1) as [Z1 Z2].
           split; [exact Z1|]. split; [split; reflexivity|]. exists OStored.
           split; [unfold tr_ok; rewrite Z2, F1; reflexivity|]. split; [reflexivity|]. split; [reflexivity|].
           split; [apply nobad_app; split; assumption|].
           exists (w_fs w1), no. split; [exact Hnew|]. split; [exact W2|]. split; [exact Ho | exact Hc].
        -- rewrite (trerr_notok _ _ T2). destruct T2 as [_ [T2 U2]].
           assert (Q2 : t_post (w_tr w2) = 0) by (rewrite T2; exact Q1).
           destruct (tr_finally_post0 (w_tr w2) Q2) as [Z1 Z2].
           split; [exact Z1|]. split; [split; reflexivity|]. exists OPositionFailed.
           split; [apply uncatchable_notok; rewrite Z2; exact U2|]. split; [reflexivity|].
           exists (w_fs w1), no. split; [exact Hnew|]. split; [exact W2|]. split; [exact Ho | exact Hc].
      * intros w2 [l2 [L2 [P2 [V2 K2]]]]. exists (l2 ++ l1). split; [rewrite L2, L1; apply app_assoc|].
        split; [apply Forall_app; auto|]. destruct Hnew as [[i [V1 _]] [K1 _]].
        eexists. split; [rewrite V2, V1; reflexivity|].
        eapply keep_trans; [apply keep_weaken; exact K1 | exact K2].
    + (* an expected condition *)
      destruct Hm as [->|[->| ->]].
      * (* the source does not exist *)
        cstep (catch_single M_src_missing _ _ F1 Q1). apply finally_ret.
        unfold fsl_post. exists l1. split; [exact L1|]. split; [exact P1|]. cbn [upd_tr w_tr w_fs].
        split; [reflexivity|]. split; [split; reflexivity|]. exists OAbandoned.
        split; [reflexivity|]. split; [reflexivity|]. split; [left; reflexivity|]. split; [exact N1|].
        left. exact Hg.
      * (* ... may not be read *)
        cstep (catch_single M_src_missing _ _ F1 Q1). cstep (catch_single M_not_regular _ _ F1 Q1).
        cstep (catch_single M_src_denied _ _ F1 Q1). apply finally_ret.
        unfold fsl_post. exists l1. split; [exact L1|]. split; [exact P1|]. cbn [upd_tr w_tr w_fs].
        split; [reflexivity|]. split; [split; reflexivity|]. exists OAbandoned.
        split; [reflexivity|]. split; [reflexivity|]. split; [right; reflexivity|]. split; [exact N1|].
        left. exact Hg.
      * (* the destination name is taken: next name *)
        cstep (catch_single M_src_missing _ _ F1 Q1). cstep (catch_single M_not_regular _ _ F1 Q1).
        cstep (catch_single M_src_denied _ _ F1 Q1). cstep (catch_single M_dst_exists _ _ F1 Q1).
        set (wb := upd_tr _ w1).
        eapply post_mono; [apply (IH (increment sp) wb); [intros k; apply Hne | reflexivity | reflexivity]| |].
        -- intros [[ev stored] sp'] w' H. unfold fsl_post in H.
           destruct H as [l [L [P [Q [[S1 S2] [oc Hoc]]]]]]. unfold fsl_post.
           exists (l ++ l1). split; [rewrite L; change (w_log wb) with (w_log w1); rewrite L1; apply app_assoc|].
           split; [apply Forall_app; auto|]. split; [exact Q|]. split; [split; [exact S1 | exact S2]|].
           change (w_fs wb) with (w_fs w1) in Hoc.
           assert (Hund : forall f', undone (current_path sp') l (w_fs w1) f' ->
                                     undone (current_path sp') (l ++ l1) (w_fs w) f').
           { intros f' [G|[G [e G']]]; [left; eapply gone_gone; eauto|right].
             split; [eapply gone_new; eauto|]. exists e. apply in_or_app. left. exact G'. }
           assert (Hver : forall b f', versioned o b (current_path sp') (w_fs w1) f' ->
                                       versioned o b (current_path sp') (w_fs w) f').
           { intros b f' [f1 [no' [G1 G2]]]. exists f1, no'. split; [eapply gone_new; eauto | exact G2]. }
           exists oc. destruct oc.
           ++ destruct Hoc as [H1 [H2 [H3 [H4 H5]]]]. repeat (split; [assumption|]).
              split; [apply nobad_app; split; assumption | apply Hver; exact H5].
           ++ destruct Hoc as [H1 [H2 [H3 [H4 H5]]]]. repeat (split; [assumption|]).
              split; [apply nobad_app; split; assumption | apply Hund; exact H5].
           ++ destruct Hoc as [H1 [H2 [H3 [H4 [H5 H6]]]]]. repeat (split; [assumption|]).
              split; [apply nobad_app; split; assumption|]. split; [eapply gone_gone; eauto|].
              rewrite H6. cbn [increment sp_dups]. lia.
           ++ destruct Hoc as [H1 [H2 H5]]. repeat (split; [assumption|]). apply Hund; exact H5.
           ++ destruct Hoc as [H1 [H2 H5]]. repeat (split; [assumption|]). apply Hver; exact H5.
        -- intros w' Hc. eapply fsl_crash_trans; [exact L1 | exact P1 | exact Hg | exact Hc].
    + (* not a regular file *)
      cstep (catch_single M_src_missing _ _ F1 Q1). cstep (catch_single M_not_regular _ _ F1 Q1).
      apply finally_ret.
      unfold fsl_post. exists l1. split; [exact L1|]. split; [exact P1|]. cbn [upd_tr w_tr w_fs].
      split; [reflexivity|]. split; [split; reflexivity|]. exists OAbandoned.
      split; [reflexivity|]. split; [reflexivity|]. split; [left; reflexivity|]. split; [exact N1|]. exact Hu.
    + (* an error is on the trace: it stays there *)
      assert (Hc : forall m, caught_msg m -> tr_catch_static m (w_tr w1) = (false, w_tr w1))
        by (intros m Hm; apply catch_uncatchable; assumption).
      assert (Hc1 := Hc M_src_missing (or_introl eq_refl)).
      assert (Hc2 := Hc M_not_regular (or_intror (or_introl eq_refl))).
      assert (Hc3 := Hc M_src_denied (or_intror (or_intror (or_introl eq_refl)))).
      assert (Hc4 := Hc M_dst_exists (or_intror (or_intror (or_intror eq_refl)))).
      cstep Hc1. cstep Hc2. cstep Hc3. cstep Hc4.
      assert (Hno : tr_ok (w_tr w1) = false) by (apply uncatchable_notok; exact U1).
      unfold bind at 1. rewrite (write_counter_notok _ o w1 Hno). rewrite bind_is_ok, Hno. apply finally_ret.
      unfold fsl_post. exists l1. split; [exact L1|]. split; [exact P1|]. cbn [upd_tr w_tr w_fs].
      destruct (tr_finally_post0 (w_tr w1) Q1) as [Z1 Z2].
      split; [exact Z1|]. split; [split; reflexivity|]. exists OCopyFailed.
      split; [apply uncatchable_notok; rewrite Z2; exact U1|]. split; [reflexivity | exact Hu].
Qed.

End Loop.
End Copy.

(* a crash (the process dies before some call of the copy): nothing was
   unlinked from the queue directory, existing files and links are looked up
   as before (a partial version may be left in the store) *)
Theorem crash_during_copy_keeps_entries offp cfg head off ish o fuel sp w :
  (forall n, current_path (mkSP (sp_base sp) (sp_ext sp) n) <> offp) ->
  t_frames (w_tr w) = [] -> t_post (w_tr w) = 0 ->
  match file_store_loop fuel sp head offp off ish cfg o w with
  | (None, w') =>
      (exists l, w_log w' = l ++ w_log w /\ Forall plain l) /\
      (forall p n, p <> offp -> nondir n = true -> lookup (w_fs w) p = Some n -> lookup (w_fs w') p = Some n)
  | (Some _, _) => True
  end.
Proof.
  intros Hn Hfr Hpo. pose proof (file_store_loop_spec offp cfg head off ish o fuel sp w Hn Hfr Hpo) as H.
  destruct (file_store_loop fuel sp head offp off ish cfg o w) as [[r|] w']; cbn [post] in H; [exact I|].
  destruct H as [l [L [P [x [_ K]]]]]. split; [exists l; auto|].
  intros p n Hp Hnd Hl. apply (K p n); [intros E; inversion E; contradiction | exact Hnd | exact Hl].
Qed.

(* ====================================================================== *)
(* 4. one iteration of the timeout pass over a file head                  *)
(* ====================================================================== *)

Section Step.
Variables (h1 : handler) (path : str) (meta : N) (version : str).
Variable k : handler -> M (tresult * handler).   (* the rest of the pass *)

Let cfg := h_cfg h1.
Definition st_rel : str := skipn (Nat.min (length path) (h_cpl h1)) path.
Definition st_sp : store_path := create_store_path (c_store_root cfg) st_rel version.
Definition st_offp : str := c_offset_root cfg ++ ch_slash :: st_rel.
Definition st_ish : bool := N.testbit meta 1.
Definition st_qname : str := join (q_dir (h_q h1)) (dec (q_head (h_q h1))).

(* what follows the copy loop: pop, stop on a failed trace, else link / journal / go on *)
Definition file_finish (r2 : option str * bool * store_path) : M (tresult * handler) :=
  let '(ev, is_stored, sp') := r2 in
  let pre_off := shift_right2 meta in
  do q2 <- q_pop_head (h_q h1);
  let h2 := set_q q2 h1 in
  do b4 <- is_ok;
  if negb b4 then
    throw_context path;; throw_static M_store_cannot_copy;; ret_ (TError, h2)
  else
    (if Nat.ltb 0 pre_off && is_stored then
       let ns := name_start path pre_off pre_off in
       let project_path :=
         c_unstable_root cfg ++ ch_slash :: (firstn (pre_off - ns) (skipn ns path))
                            ++ skipn pre_off path in
       do u <- k_unlink project_path;
       match u with
       | None | Some ENOENT => ret_ tt
       | Some e => throw_errno e
       end;;
       create_parents project_path;;
       do b5 <- is_ok;
       (if b5 then
          do l <- k_link (current_path sp') project_path;
          match l with Some e => throw_errno e | None => ret_ tt end
        else ret_ tt)
     else ret_ tt);;
    record_event ev 0%N st_rel h2;;
    k h2.

Definition copy_fuel (f : fs) : nat := S (S (dir_entry_count f (dirname (current_path st_sp)))).

(* from the test of the trace after read_counter on *)
Definition copy_step (off : N) : M (tresult * handler) :=
  do b3 <- is_ok;
  if negb b3 then ret_ (TError, h1)
  else
    do f <- get_fs;
    do r2 <- file_store_loop (copy_fuel f) st_sp path st_offp (N.to_nat off) st_ish cfg;
    file_finish r2.

Definition file_step : M (tresult * handler) :=
  do off <- (if st_ish then read_counter st_offp else ret_ 0%N);
  copy_step off.

Lemma set_q_same h : set_q (h_q h) h = h.
Proof. destruct h; reflexivity. Qed.

(* a failed trace after the loop: the head is NOT popped, the pass stops *)
Definition stopped (wc : world) : world :=
  upd_tr (tr_push (FStatic M_store_cannot_copy) (tr_push (FContext path) (w_tr wc))) wc.

Lemma file_finish_failed r2 o wc :
  tr_ok (w_tr wc) = false -> file_finish r2 o wc = (Some (TError, h1), stopped wc).
Proof.
  intros Hno. destruct r2 as [[ev st] sp']. unfold file_finish, q_pop_head, when_ok.
  rewrite bind_assoc, bind_is_ok, Hno, bind_ret. rewrite bind_is_ok, Hno. cbn [negb].
  unfold throw_context, throw_static. rewrite !bind_throw. rewrite set_q_same. reflexivity.
Qed.

Lemma stopped_facts wc :
  w_fs (stopped wc) = w_fs wc /\ w_log (stopped wc) = w_log wc /\ w_n (stopped wc) = w_n wc /\
  tr_ok (w_tr (stopped wc)) = false /\
  hd_error (t_frames (w_tr (stopped wc))) = Some (FStatic M_store_cannot_copy).
Proof. repeat split. Qed.

(* the hypotheses on the names *)
Definition names_ok : Prop :=
  forall n, current_path (mkSP (sp_base st_sp) (sp_ext st_sp) n) <> st_offp.

(* The result of copy_step, for every oracle, in terms of the world [wc] right
   after the copy loop: [wc] is related to the start by one of the five
   outcomes of file_store_loop_spec, and the result is what file_finish makes
   of it. *)
Definition loop_rel (o : oracle) (off : N) (w : world) (res : option str * bool * store_path) (wc : world) : Prop :=
  fsl_post st_offp cfg (N.to_nat off) st_ish o (copy_fuel (w_fs w)) st_sp w res wc.

Theorem copy_step_outcome o w off :
  names_ok -> t_frames (w_tr w) = [] -> t_post (w_tr w) = 0 ->
  post (fun r w' => exists res wc, loop_rel o off w res wc /\ file_finish res o wc = (Some r, w'))
       (fun w' => fsl_crash st_offp w w' \/
                  exists res wc, loop_rel o off w res wc /\ file_finish res o wc = (None, w'))
       (copy_step off o w).
Proof.
  intros Hn Hfr Hpo. assert (Hok : tr_ok (w_tr w) = true) by (unfold tr_ok; rewrite Hfr; reflexivity).
  unfold copy_step. rewrite bind_is_ok, Hok. cbn [negb]. rewrite bind_get_fs.
  pose proof (file_store_loop_spec st_offp cfg path (N.to_nat off) st_ish o (copy_fuel (w_fs w)) st_sp w Hn Hfr Hpo) as H.
  unfold bind. destruct (file_store_loop _ _ _ _ _ _ _ o w) as [[res|] wc]; cbn [post] in H |- *.
  - destruct (file_finish res o wc) as [[r|] w'] eqn:E; cbn [post].
    + exists res, wc. split; [exact H | exact E].
    + right. exists res, wc. split; [exact H | exact E].
  - left. exact H.
Qed.

(* the loop relation, read for what it says when the trace is not ok *)
Lemma loop_rel_inv o off w ev st sp' wc :
  loop_rel o off w (ev, st, sp') wc ->
  exists l, w_log wc = l ++ w_log w /\ Forall plain l /\ t_post (w_tr wc) = 0 /\ same_names st_sp sp' /\
    (tr_ok (w_tr wc) = true -> nobad st_offp l) /\
    (tr_ok (w_tr wc) = false ->
       st = false /\
       (undone st_offp (current_path sp') l (w_fs w) (w_fs wc) \/
        versioned st_offp (N.to_nat off) st_ish o true (current_path sp') (w_fs w) (w_fs wc))).
Proof.
  unfold loop_rel, fsl_post. intros [l [L [P [Q [S [oc H]]]]]]. exists l.
  split; [exact L|]. split; [exact P|]. split; [exact Q|]. split; [exact S|].
  destruct oc.
  - destruct H as [H1 [H2 [H3 [H4 H5]]]]. split; [auto | intros E; congruence].
  - destruct H as [H1 [H2 [H3 [H4 H5]]]]. split; [auto | intros E; congruence].
  - destruct H as [H1 [H2 [H3 [H4 H5]]]]. split; [auto | intros E; congruence].
  - destruct H as [H1 [H2 H3]]. split; [intros E; congruence | intros _; auto].
  - destruct H as [H1 [H2 H3]]. split; [intros E; congruence | intros _; auto].
Qed.

Lemma undone_keep dst l f f' : undone st_offp dst l f f' -> keep (Some st_offp) f f'.
Proof. intros [[_ [K _]]|[[_ [K _]] _]]; apply keep_weaken; exact K. Qed.

Lemma versioned_keep o off b dst f f' :
  versioned st_offp off st_ish o b dst f f' -> keep (Some st_offp) f f'.
Proof.
  intros [f1 [no [[_ [K _]] [[_ K'] _]]]]. eapply keep_trans; [apply keep_weaken; exact K | exact K'].
Qed.

(* (1) fault_is_reported.  A call of the copy that fails with an errno outside
   the expected conditions (class [reported_class]) puts the error on the
   trace: the trace is not ok after the loop, the pass ends with the "stop"
   result and "Cannot copy ..." on top of the trace, and nothing else is done. *)
Theorem fault_is_reported o w off :
  names_ok -> t_frames (w_tr w) = [] -> t_post (w_tr w) = 0 ->
  ht (fun o' => o' = o) (fun w0 => w0 = w) (copy_step off)
     (fun r w' => exists res wc l,
        w_log wc = l ++ w_log w /\ file_finish res o wc = (Some r, w') /\
        (existsb (bad st_offp) l = true ->
           tr_ok (w_tr wc) = false /\ snd (fst res) = false /\
           r = (TError, h1) /\ w' = stopped wc /\ tr_ok (w_tr w') = false))
     (fun _ => True).
Proof.
  intros Hn Hfr Hpo. apply ht_post_iff. intros o' w0 -> ->.
  eapply post_mono; [apply (copy_step_outcome o w off Hn Hfr Hpo)| |auto].
  intros r w' [[[ev st] sp'] [wc [HL HF]]]. destruct (loop_rel_inv _ _ _ _ _ _ _ HL) as [l [L [P [Q [S [Hok Hno]]]]]].
  exists (ev, st, sp'), wc, l. split; [exact L|]. split; [exact HF|]. intros Hb.
  destruct (tr_ok (w_tr wc)) eqn:E.
  - specialize (Hok eq_refl). unfold nobad in Hok. congruence.
  - destruct (Hno eq_refl) as [Hst _]. rewrite (file_finish_failed _ o wc E) in HF. inversion HF; subst.
    repeat split; reflexivity.
Qed.

(* (2) failed_copy_keeps_entry.  When the trace is not ok after the copy, the
   head stays: the handler (its in-memory queue) is returned unchanged, no
   unlinkat was issued (every call of the iteration is a [plain] one), every
   non-directory entry other than the offset file -- in particular the queue
   link of the head -- is looked up as before. *)
Theorem failed_copy_keeps_entry o w off :
  names_ok -> t_frames (w_tr w) = [] -> t_post (w_tr w) = 0 ->
  ht (fun o' => o' = o) (fun w0 => w0 = w) (copy_step off)
     (fun r w' => exists res wc, file_finish res o wc = (Some r, w') /\
        (tr_ok (w_tr wc) = false ->
           r = (TError, h1) /\ w' = stopped wc /\
           (exists l, w_log w' = l ++ w_log w /\ Forall plain l) /\
           (forall p n, p <> st_offp -> nondir n = true ->
                        lookup (w_fs w) p = Some n -> lookup (w_fs w') p = Some n)))
     (fun w' => True).
Proof.
  intros Hn Hfr Hpo. apply ht_post_iff. intros o' w0 -> ->.
  eapply post_mono; [apply (copy_step_outcome o w off Hn Hfr Hpo)| |auto].
  intros r w' [[[ev st] sp'] [wc [HL HF]]]. destruct (loop_rel_inv _ _ _ _ _ _ _ HL) as [l [L [P [Q [S [Hok Hno]]]]]].
  exists (ev, st, sp'), wc. split; [exact HF|]. intros E.
  destruct (Hno E) as [Hst Hfs]. rewrite (file_finish_failed _ o wc E) in HF. inversion HF; subst.
  split; [reflexivity|]. split; [reflexivity|]. split; [exists l; split; [exact L | exact P]|].
  intros p n Hp Hnd Hl. change (w_fs (stopped wc)) with (w_fs wc).
  assert (K : keep (Some st_offp) (w_fs w) (w_fs wc)).
  { destruct Hfs as [H|H]; [eapply undone_keep; exact H | eapply versioned_keep; exact H]. }
  apply (K p n); [intros H; inversion H; contradiction | exact Hnd | exact Hl].
Qed.

(* (3) failed_copy_leaves_no_version.  When the trace is not ok after the copy,
   the non-directory entries (other than the offset file) are those of before
   -- no new file in the store -- with exactly two exceptions, in which one
   entry, the destination, was added:
     (a) the unlink of the destination was itself failed by the oracle;
     (b) the copy was complete and it is the position update that failed (K1):
         the complete version stays, and so does the queue entry (2). *)
Theorem failed_copy_leaves_no_version o w off :
  names_ok -> t_frames (w_tr w) = [] -> t_post (w_tr w) = 0 ->
  ht (fun o' => o' = o) (fun w0 => w0 = w) (copy_step off)
     (fun r w' => exists res wc, file_finish res o wc = (Some r, w') /\
        (tr_ok (w_tr wc) = false ->
           let dst := current_path (snd res) in
           vdents st_offp (w_fs w') = vdents st_offp (w_fs w) \/
           (exists i l, vdents st_offp (w_fs w') = vdents st_offp (w_fs w) ++ [(dst, NFile i)] /\
                        w_log wc = l ++ w_log w /\
                        ((exists e, In (CUnlink dst, RFault e) l) \/
                         versioned st_offp (N.to_nat off) st_ish o true dst (w_fs w) (w_fs wc)))))
     (fun w' => True).
Proof.
  intros Hn Hfr Hpo. apply ht_post_iff. intros o' w0 -> ->.
  eapply post_mono; [apply (copy_step_outcome o w off Hn Hfr Hpo)| |auto].
  intros r w' [[[ev st] sp'] [wc [HL HF]]]. destruct (loop_rel_inv _ _ _ _ _ _ _ HL) as [l [L [P [Q [S [Hok Hno]]]]]].
  exists (ev, st, sp'), wc. split; [exact HF|]. intros E. cbn [snd].
  destruct (Hno E) as [Hst Hfs]. rewrite (file_finish_failed _ o wc E) in HF. inversion HF; subst.
  change (w_fs (stopped wc)) with (w_fs wc).
  destruct Hfs as [[[V _]|[[[i [V _]] _] Hl]]|Hv].
  - left. exact V.
  - right. exists i, l. split; [exact V|]. split; [exact L|]. left. exact Hl.
  - right. pose proof Hv as [f1 [no [[[i [V _]] _] [[V' _] _]]]]. exists i, l.
    split; [rewrite V', V; reflexivity|]. split; [exact L|]. right. exact Hv.
Qed.

(* (4) position_not_rewound, for a history head. *)
Definition pos (f : fs) : N := match content st_offp f with Some b => undec b | None => 0%N end.

Definition offset_inode_allocated (f : fs) : Prop :=
  forall i, lookup f st_offp = Some (NFile i) -> i < fs_next f.

Lemma content_kept f f' :
  keep None f f' -> old_files f f' -> offset_inode_allocated f ->
  content st_offp f = None \/ content st_offp f' = content st_offp f.
Proof.
  intros K [_ O] A. unfold content. destruct (lookup f st_offp) as [[|i|]|] eqn:E; auto.
  right. rewrite (K st_offp (NFile i) (fun H => match H with eq_refl => I end) eq_refl E).
  rewrite (O i (A i E)). reflexivity.
Qed.

Lemma pos_kept f f' :
  content st_offp f = None \/ content st_offp f' = content st_offp f -> (pos f <= pos f')%N.
Proof. unfold pos. intros [H|H]; rewrite H; [apply N.le_0_l | apply N.le_refl]. Qed.

Lemma undone_content dst l f f' :
  undone st_offp dst l f f' -> offset_inode_allocated f ->
  content st_offp f = None \/ content st_offp f' = content st_offp f.
Proof. intros [[_ [K O]]|[[_ [K O]] _]] A; apply content_kept; assumption. Qed.

(* For every oracle that never makes a one-byte write move 0 bytes: after the
   copy of a history head the remembered position is at least what it was --
   unless the copy was complete and a call INSIDE the position update failed
   (K1): then the offset file holds a prefix of the digits of the new position
   (possibly empty), which decodes to at most the new position and can be
   smaller than the old one; the trace is not ok, the head stays queued (2)
   and the complete version stays (3b), so the slice is stored again. *)
Theorem position_not_rewound o w off :
  names_ok -> t_frames (w_tr w) = [] -> t_post (w_tr w) = 0 ->
  noshort0 o -> st_ish = true ->
  offset_inode_allocated (w_fs w) -> (pos (w_fs w) <= off)%N ->
  ht (fun o' => o' = o) (fun w0 => w0 = w) (copy_step off)
     (fun r w' => exists res wc, file_finish res o wc = (Some r, w') /\
        ((pos (w_fs w) <= pos (w_fs wc))%N \/
         (tr_ok (w_tr wc) = false /\
          exists no k, N.to_nat off <= no /\
            content st_offp (w_fs wc) = Some (firstn k (dec (N.of_nat no))) /\
            (pos (w_fs wc) <= N.of_nat no)%N /\
            versioned st_offp (N.to_nat off) st_ish o true (current_path (snd res)) (w_fs w) (w_fs wc))))
     (fun w' => True).
Proof.
  intros Hn Hfr Hpo Hns Hish Hall Hpos. apply ht_post_iff. intros o' w0 -> ->.
  eapply post_mono; [apply (copy_step_outcome o w off Hn Hfr Hpo)| |auto].
  intros r w' [[[ev st] sp'] [wc [HL HF]]]. exists (ev, st, sp'), wc. split; [exact HF|].
  unfold loop_rel, fsl_post in HL. destruct HL as [l [L [P [Q [S [oc H]]]]]]. cbn [snd].
  assert (Hver : forall b, versioned st_offp (N.to_nat off) st_ish o b (current_path sp') (w_fs w) (w_fs wc) ->
            exists f1 no, N.to_nat off <= no /\
              (content st_offp (w_fs w) = None \/ content st_offp f1 = content st_offp (w_fs w)) /\
              (N.of_nat no <> 0%N ->
               if b then posfail st_offp (N.of_nat no) f1 (w_fs wc)
               else content st_offp (w_fs wc) = Some (dec (N.of_nat no)))).
  { intros b [f1 [no [[_ [K O]] [_ [Ho Hc]]]]]. exists f1, no. split; [exact Ho|].
    split; [apply content_kept; assumption|]. rewrite Hish in Hc. cbv zeta in Hc.
    intros Hz. apply Hc; assumption. }
  assert (Hzero : forall no, N.to_nat off <= no -> N.of_nat no = 0%N -> (pos (w_fs w) <= pos (w_fs wc))%N).
  { intros no Ho Hz. assert (off = 0%N) by lia. subst off.
    apply N.le_trans with 0%N; [exact Hpos | apply N.le_0_l]. }
  destruct oc.
  - destruct H as [_ [_ [_ [_ Hv]]]]. left. destruct (Hver false Hv) as [f1 [no [Ho [_ Hc]]]].
    destruct (N.eq_dec (N.of_nat no) 0) as [Hz|Hz]; [exact (Hzero no Ho Hz)|].
    unfold pos at 2. rewrite (Hc Hz), undec_dec. lia.
  - destruct H as [_ [_ [_ [_ Hu]]]]. left. apply pos_kept. eapply undone_content; eassumption.
  - destruct H as [_ [_ [_ [_ [[_ [K O]] _]]]]]. left. apply pos_kept. apply content_kept; assumption.
  - destruct H as [_ [_ Hu]]. left. apply pos_kept. eapply undone_content; eassumption.
  - destruct H as [Hno [_ Hv]]. destruct (Hver true Hv) as [f1 [no [Ho [Hc1 Hc]]]].
    destruct (N.eq_dec (N.of_nat no) 0) as [Hz|Hz]; [left; exact (Hzero no Ho Hz)|].
    destruct (Hc Hz) as [Hp|[Hp|[kk Hp]]].
    + left. apply pos_kept. destruct Hc1 as [Hc1|Hc1]; [left; exact Hc1 | left; congruence].
    + left. apply pos_kept. destruct Hc1 as [Hc1|Hc1]; [left; exact Hc1 | right; congruence].
    + right. split; [exact Hno|]. exists no, kk. split; [exact Ho|]. split; [exact Hp|].
      split; [unfold pos; rewrite Hp; apply undec_firstn_dec | exact Hv].
Qed.

End Step.

(* ----- the iteration inside handle_timeout_loop ----- *)

(* the checks handle_timeout makes on a ready head, for a file (not project) head *)
Definition file_head_valid (h1 : handler) (path : str) (meta : N) : bool :=
  negb (negb (prefixb [ch_slash] path) || is_slash (last path ch_dot)
        || (N.of_nat (length path) <? N.shiftr meta 2)%N
        || (Nat.ltb (length path) (h_cpl h1) && negb (N.odd meta)))
  && negb (N.odd meta).

Lemma tr_ok_finally_rethrow m t : tr_ok t = true -> tr_ok (tr_finally_rethrow_static m t) = true.
Proof.
  destruct t as [fr pre po]. unfold tr_ok. cbn [t_frames]. destruct fr; [|discriminate].
  intros _. destruct po; reflexivity.
Qed.

Lemma finally_rethrow_frames m t :
  t_frames t = [] -> t_post t = 0 ->
  t_frames (tr_finally_rethrow_static m t) = [] /\ t_post (tr_finally_rethrow_static m t) = 0.
Proof.
  destruct t as [fr pre po]. cbn [t_frames t_post]. intros -> ->. split; reflexivity.
Qed.

Lemma get_timestamp_ok pat o w :
  tr_ok (w_tr w) = true ->
  Nat.ltb name_max (length (expand_pattern pat (dec (Z.to_N (w_clock w))))) = false ->
  get_timestamp pat o w = (Some (Some (expand_pattern pat (dec (Z.to_N (w_clock w))))), w).
Proof.
  intros Hok Hl. unfold get_timestamp. unfold bind at 1. unfold get_clock.
  rewrite bind_is_ok, Hok. cbv zeta. rewrite Hl. reflexivity.
Qed.

(* When the head read yields a ready file head that passes the checks, the
   iteration of handle_timeout_loop IS file_step, run from the world after the
   head read, with the rest of the pass as continuation. *)
Theorem timeout_reaches_file_step fuel' rev h o w q1 w2 path meta :
  tr_ok (w_tr w) = true ->
  q_get_head (S (N.to_nat (q_size (h_q h)))) (h_q h) o (upd_tr (tr_try (w_tr w)) w)
    = (Some (Some (QReady path meta), q1), w2) ->
  tr_ok (w_tr w2) = true ->
  let h1 := set_q q1 h in
  let w3 := upd_tr (tr_finally_rethrow_static M_linq_cannot_get_head (w_tr w2)) w2 in
  let version := expand_pattern (c_version_pattern (h_cfg h)) (dec (Z.to_N (w_clock w2))) in
  Nat.ltb name_max (length version) = false ->
  existsb is_slash version = false ->
  file_head_valid h1 path meta = true ->
  handle_timeout_loop (S fuel') rev h o w
  = file_step h1 path meta version (handle_timeout_loop fuel' rev) o w3.
Proof.
  intros Hok Hhead Hok2 h1 w3 version Hlen Hsl Hval.
  cbn [handle_timeout_loop]. rewrite bind_is_ok, Hok. cbn [negb].
  unfold try_. rewrite bind_mod_tr. unfold bind at 1. rewrite Hhead.
  unfold finally_rethrow_static. rewrite bind_mod_tr. fold w3. cbv iota beta zeta.
  assert (Hok3 : tr_ok (w_tr w3) = true) by (apply tr_ok_finally_rethrow; exact Hok2).
  rewrite bind_is_ok, Hok3. cbv iota.
  change (h_cfg (set_q q1 h)) with (h_cfg h).
  unfold bind at 1. rewrite (get_timestamp_ok _ o w3 Hok3 Hlen).
  change (w_clock w3) with (w_clock w2). fold version.
  rewrite bind_is_ok, Hok3. cbv iota. rewrite Hsl.
  rewrite bind_ret. rewrite bind_is_ok, Hok3. cbv iota.
  unfold file_head_valid in Hval. apply andb_true_iff in Hval. destruct Hval as [Hv1 Hv2].
  apply negb_true_iff in Hv1, Hv2. fold h1. rewrite Hv2. cbn [negb].
  change (h_cpl h1) with (h_cpl h) in *.
  rewrite Hv2 in Hv1. cbn [negb] in Hv1. rewrite Hv1.
  reflexivity.
Qed.

(* a failed trace after read_counter: the iteration stops at once *)
Lemma copy_step_notok h1 path meta version k off o w :
  tr_ok (w_tr w) = false -> copy_step h1 path meta version k off o w = (Some (TError, h1), w).
Proof. intros H. unfold copy_step. rewrite bind_is_ok, H. reflexivity. Qed.

(* ----- read_counter, and the whole iteration ----- *)

Definition readc (c : call) : bool :=
  match c with COpenR _ | CRead _ | CClose => true | _ => false end.
Definition readp (cr : call * ret) : Prop := readc (fst cr) = true.

(* the decoded content of a counter file *)
Definition pos_at (p : str) (f : fs) : N :=
  match lookup f p with Some (NFile i) => undec (f_bytes (get_file f i)) | _ => 0%N end.

Lemma skipn_nth {A} (l : list A) : forall n x, nth_error l n = Some x -> skipn n l = x :: skipn (S n) l.
Proof.
  induction l as [|a l IH]; intros [|n] x H; try discriminate.
  - inversion H; subst. reflexivity.
  - cbn [nth_error] in H. rewrite (skipn_cons n a l). rewrite (IH n x H). reflexivity.
Qed.

Lemma skipn_none {A} (l : list A) n : nth_error l n = None -> skipn n l = [].
Proof. intros H. apply skipn_all2. apply nth_error_None. exact H. Qed.

Definition rd_rel (w w' : world) (l : list (call * ret)) : Prop :=
  w_log w' = l ++ w_log w /\ Forall readp l /\ w_fs w' = w_fs w.

Lemma rd_rel_refl w : rd_rel w w [].
Proof. split; [reflexivity|]. split; [constructor | reflexivity]. Qed.

Lemma rd_rel_upd w w' l t : rd_rel w w' l -> rd_rel w (upd_tr t w') l.
Proof. intros H. exact H. Qed.

Lemma rd_rel_call c r w w' l :
  readc c = true -> rd_rel (after_call c r (w_fs w) w) w' l -> rd_rel w w' (l ++ [(c, r)]).
Proof.
  intros Hc [A [B C]]. split; [rewrite A, <- app_assoc; reflexivity|].
  split; [apply Forall_app; split; [exact B | constructor; [exact Hc | constructor]] | exact C].
Qed.

Lemma read_digits_spec fuel : forall d pos acc o w,
  post (fun a w' => exists l, rd_rel w w' l /\
          ((w_tr w' = w_tr w /\
            forall i, d = FdFile i -> length (f_bytes (get_file (w_fs w) i)) - pos < fuel ->
                      a = undec_aux (skipn pos (f_bytes (get_file (w_fs w) i))) acc) \/
           trerr w w'))
       (fun w' => exists l, rd_rel w w' l)
       (read_digits fuel d pos acc o w).
Proof.
  induction fuel as [|fuel IH]; intros d pos acc o w; cbn [read_digits].
  - apply post_ret. exists []. split; [apply rd_rel_refl|]. left. split; [reflexivity|]. intros i _ H. lia.
  - apply post_bind.
    assert (Herr : forall e r,
              post (fun a w' => exists l, rd_rel w w' l /\
                      ((w_tr w' = w_tr w /\
                        forall i, d = FdFile i -> length (f_bytes (get_file (w_fs w) i)) - pos < S fuel ->
                                  a = undec_aux (skipn pos (f_bytes (get_file (w_fs w) i))) acc) \/
                       trerr w w'))
                   (fun w' => exists l, rd_rel w w' l)
                   ((throw_errno e;; ret_ acc) o (after_call (CRead 1) r (w_fs w) w))).
    { intros e r. unfold throw_errno. rewrite bind_throw. apply post_ret.
      exists [(CRead 1, r)].
      split; [apply (rd_rel_call (CRead 1) r w _ []); [reflexivity | apply rd_rel_upd, rd_rel_refl]|].
      right. split; [reflexivity|]. split; [reflexivity | exact I]. }
    destruct d as [i|dp].
    + unfold k_read1. apply post_sys; [exists []; apply rd_rel_refl| |].
      * intros e. apply Herr.
      * intros r a f' E. set (b := f_bytes (get_file (w_fs w) i)) in *.
        destruct (nth_error b pos) as [c|] eqn:En; inversion E; subst r a f'; clear E.
        -- destruct (is_digit c) eqn:Ed.
           ++ eapply post_mono; [apply IH| |].
              ** intros a w' [l [R Hc]]. exists (l ++ [(CRead 1, RInt 1)]).
                 split; [apply rd_rel_call; [reflexivity | exact R]|].
                 destruct Hc as [[T V]|T]; [left|right; exact T].
                 split; [exact T|]. intros i' Ei Hl. inversion Ei; subst i'.
                 cbn [after_call w_fs] in V. fold b in V |- *. fold b in Hl.
                 assert (Hlt : pos < length b) by (apply nth_error_Some; rewrite En; discriminate).
                 specialize (V i eq_refl). fold b in V. rewrite V by lia. rewrite (skipn_nth b pos c En). cbn [undec_aux]. rewrite Ed. reflexivity.
              ** intros w' [l R]. exists (l ++ [(CRead 1, RInt 1)]). apply rd_rel_call; [reflexivity | exact R].
           ++ apply post_ret. exists [(CRead 1, RInt 1)].
              split; [apply (rd_rel_call (CRead 1) _ w _ []); [reflexivity | apply rd_rel_refl]|].
              left. split; [reflexivity|]. intros i' Ei _. inversion Ei; subst i'. fold b.
              rewrite (skipn_nth b pos c En). cbn [undec_aux]. rewrite Ed. reflexivity.
        -- apply post_ret. exists [(CRead 1, RInt 0)].
           split; [apply (rd_rel_call (CRead 1) _ w _ []); [reflexivity | apply rd_rel_refl]|].
           left. split; [reflexivity|]. intros i' Ei _. inversion Ei; subst i'. fold b.
           rewrite (skipn_none b pos En). reflexivity.
    + apply post_sys; [exists []; apply rd_rel_refl| |].
      * intros e. apply Herr.
      * intros r a f' E. inversion E; subst. apply Herr.
Qed.

Definition rc_post (p : str) (w : world) (off : N) (w' : world) : Prop :=
  exists l, rd_rel w w' l /\
    ((w_tr w' = w_tr w /\ (off = pos_at p (w_fs w) \/ In (COpenR p, RFault ENOENT) l)) \/ trerr w w').

Lemma trerr_trans_same w w1 w2 : w_tr w1 = w_tr w -> trerr w1 w2 -> trerr w w2.
Proof. intros E H. unfold trerr in *. rewrite <- E. exact H. Qed.

Lemma read_digits_dir fuel dp pos acc o w :
  post (fun _ w' => exists l, rd_rel w w' l /\ trerr w w') (fun w' => exists l, rd_rel w w' l)
       (read_digits (S fuel) (FdDir dp) pos acc o w).
Proof.
  cbn [read_digits]. apply post_bind.
  assert (Herr : forall e r,
            post (fun _ w' => exists l, rd_rel w w' l /\ trerr w w') (fun w' => exists l, rd_rel w w' l)
                 ((throw_errno e;; ret_ acc) o (after_call (CRead 1) r (w_fs w) w))).
  { intros e r. unfold throw_errno. rewrite bind_throw. apply post_ret.
    exists [(CRead 1, r)].
    split; [apply (rd_rel_call (CRead 1) r w _ []); [reflexivity | apply rd_rel_upd, rd_rel_refl]|].
    split; [reflexivity|]. split; [reflexivity | exact I]. }
  apply post_sys; [exists []; apply rd_rel_refl| |].
  - intros e. apply Herr.
  - intros r a f' E. inversion E; subst. apply Herr.
Qed.

Theorem read_counter_spec p o w :
  tr_ok (w_tr w) = true ->
  post (rc_post p w) (fun w' => exists l, rd_rel w w' l) (read_counter p o w).
Proof.
  intros Hok. unfold read_counter, when_ok. rewrite bind_is_ok, Hok.
  apply post_bind. unfold k_open_read. eapply post_mono; [apply open_gen_spec| |];
    [|intros w1 ->; exists []; apply rd_rel_refl].
  intros v w1 [r [E [Hr Hc]]]. cbv beta.
  assert (F1 : w_fs w1 = w_fs w).
  { destruct Hc as [[e [_ [_ H]]]|H]; [exact H|]. injection H as _ H. symmetry. exact H. }
  assert (R1 : rd_rel w w1 [(COpenR p, r)]).
  { rewrite E, F1. apply (rd_rel_call (COpenR p) r w _ []); [reflexivity | apply rd_rel_refl]. }
  assert (T1 : w_tr w1 = w_tr w) by (rewrite E; reflexivity).
  assert (Hcomb : forall l2 w2, rd_rel w1 w2 l2 -> rd_rel w w2 (l2 ++ [(COpenR p, r)])).
  { intros l2 w2 [L2 [P2 F2]]. destruct R1 as [L1 [P1 _]].
    split; [rewrite L2, L1, <- app_assoc; reflexivity|]. split; [apply Forall_app; auto | congruence]. }
  destruct v as [d|e].
  - (* opened *)
    destruct Hc as [[e [H _]]|Hc]; [discriminate|]. injection Hc as Hop _.
    unfold file_len. rewrite bind_assoc, bind_get_fs, bind_ret.
    assert (Hclose : forall (a : N) w2 l2, rd_rel w1 w2 l2 ->
              (w_tr w2 = w_tr w1 -> a = pos_at p (w_fs w)) -> (w_tr w2 = w_tr w1 \/ trerr w1 w2) ->
              post (rc_post p w) (fun w' => exists l, rd_rel w w' l) ((k_close;; ret_ a) o w2)).
    { intros a w2 l2 R2 Ha Ht. apply post_bind. eapply post_mono; [apply k_close_spec| |].
      - intros vc w3 [r3 [E3 _]]. apply post_ret. rewrite E3.
        exists ((CClose, r3) :: l2 ++ [(COpenR p, r)]). split.
        { change ((CClose, r3) :: l2 ++ [(COpenR p, r)]) with ([(CClose, r3)] ++ (l2 ++ [(COpenR p, r)])).
          destruct (Hcomb l2 w2 R2) as [A [B C]].
          split; [cbn [after_call w_log]; rewrite A; reflexivity|].
          split; [apply Forall_app; split; [constructor; [reflexivity | constructor] | exact B] | exact C]. }
        cbn [after_call w_tr]. destruct Ht as [T2|T2].
        + left. split; [congruence|]. left. apply Ha. exact T2.
        + right. eapply trerr_trans_same; [exact T1 | exact T2].
      - intros w3 ->. eexists. apply (Hcomb l2 w2 R2). }
    unfold fs_open_read in Hop.
    destruct (lookup (w_fs w) p) as [[|i|]|] eqn:El; try discriminate.
    + (* a directory *)
      inversion Hop; subst d.
      apply post_bind. eapply post_mono; [apply read_digits_dir| |].
      * intros a w2 [l2 [R2 T2]]. cbv beta. apply (Hclose a w2 l2 R2); [|right; exact T2].
        intros T. pose proof (trerr_notok _ _ T2) as N. rewrite T, T1, Hok in N. discriminate.
      * intros w2 [l2 R2]. eexists. apply (Hcomb l2 w2 R2).
    + (* a file *)
      destruct (f_readable (get_file (w_fs w) i)); [|discriminate]. inversion Hop; subst d.
      apply post_bind. eapply post_mono; [apply read_digits_spec| |].
      * intros a w2 [l2 [R2 Hd]]. cbv beta. apply (Hclose a w2 l2 R2).
        -- intros T. destruct Hd as [[_ V]|T2].
           ++ rewrite (V i eq_refl) by lia. unfold pos_at. rewrite El, F1. reflexivity.
           ++ pose proof (trerr_notok _ _ T2) as N. rewrite T, T1, Hok in N. discriminate.
        -- destruct Hd as [[T _]|T]; [left; exact T | right; exact T].
      * intros w2 [l2 R2]. eexists. apply (Hcomb l2 w2 R2).
  - (* the open failed *)
    assert (Hzero : (r = RFault ENOENT \/ pos_at p (w_fs w) = 0%N) -> e = ENOENT ->
                    post (rc_post p w) (fun w' => exists l, rd_rel w w' l) (ret_ 0%N o w1)).
    { intros Hz _. apply post_ret. exists [(COpenR p, r)]. split; [exact R1|]. left. split; [exact T1|].
      destruct Hz as [->|Hz]; [right; left; reflexivity | left; symmetry; exact Hz]. }
    assert (Hthrow : post (rc_post p w) (fun w' => exists l, rd_rel w w' l) ((throw_errno e;; ret_ 0%N) o w1)).
    { unfold throw_errno. rewrite bind_throw. apply post_ret. exists [(COpenR p, r)].
      split; [apply rd_rel_upd; exact R1|]. right.
      unfold trerr. cbn [upd_tr w_tr tr_push t_pre t_post t_frames]. rewrite T1.
      split; [reflexivity|]. split; [reflexivity | exact I]. }
    assert (Hz : e = ENOENT -> r = RFault ENOENT \/ pos_at p (w_fs w) = 0%N).
    { intros ->. destruct Hc as [[e' [He [Hr' _]]]|Hc].
      - inversion He; subst e'. left. exact Hr'.
      - right. injection Hc as Hop _. unfold fs_open_read in Hop. unfold pos_at.
        destruct (lookup (w_fs w) p) as [[|i|]|]; try reflexivity; try discriminate.
        destruct (f_readable (get_file (w_fs w) i)); discriminate. }
    destruct e; first [apply Hzero; [apply Hz; reflexivity | reflexivity] | exact Hthrow].
Qed.

(* ----- the whole iteration, from the head read on ----- *)

Section Whole.
Variables (h1 : handler) (path : str) (meta : N) (version : str).
Variable k : handler -> M (tresult * handler).
Let offp := st_offp h1 path.

(* what "the copy failed" gives, all in one (the conjunction of (1)-(3)) *)
Definition failed_copy_facts (o : oracle) (off : N) (w : world) (res : option str * bool * store_path)
           (wc : world) (l : list (call * ret)) (r : tresult * handler) (w' : world) : Prop :=
  r = (TError, h1) /\ w' = stopped path wc /\ tr_ok (w_tr w') = false /\
  (forall p n, p <> offp -> nondir n = true -> lookup (w_fs w) p = Some n -> lookup (w_fs w') p = Some n) /\
  let dst := current_path (snd res) in
  (vdents offp (w_fs w') = vdents offp (w_fs w) \/
   exists i, vdents offp (w_fs w') = vdents offp (w_fs w) ++ [(dst, NFile i)] /\
             ((exists e, In (CUnlink dst, RFault e) l) \/
              versioned offp (N.to_nat off) (st_ish meta) o true dst (w_fs w) (w_fs wc))).

Theorem copy_step_failed_copy o w off :
  names_ok h1 path version -> t_frames (w_tr w) = [] -> t_post (w_tr w) = 0 ->
  post (fun r w' => exists res wc l,
          w_log wc = l ++ w_log w /\ Forall plain l /\
          file_finish h1 path meta k res o wc = (Some r, w') /\
          (existsb (bad offp) l = true -> tr_ok (w_tr wc) = false) /\
          (tr_ok (w_tr wc) = false -> failed_copy_facts o off w res wc l r w'))
       (fun _ => True) (copy_step h1 path meta version k off o w).
Proof.
  intros Hn Hfr Hpo.
  eapply post_mono; [apply (copy_step_outcome h1 path meta version k o w off Hn Hfr Hpo)| |auto].
  intros r w' [[[ev st] sp'] [wc [HL HF]]].
  destruct (loop_rel_inv _ _ _ _ _ _ _ _ _ _ _ HL) as [l [L [P [Q [S [Hok Hno]]]]]].
  exists (ev, st, sp'), wc, l. split; [exact L|]. split; [exact P|]. split; [exact HF|]. split.
  - intros Hb. destruct (tr_ok (w_tr wc)) eqn:E; [|reflexivity].
    specialize (Hok eq_refl). unfold nobad in Hok. fold offp in Hok. congruence.
  - intros E. destruct (Hno E) as [Hst Hfs].
    rewrite (file_finish_failed h1 path meta k _ o wc E) in HF. inversion HF; subst r w'.
    split; [reflexivity|]. split; [reflexivity|]. split; [reflexivity|].
    change (w_fs (stopped path wc)) with (w_fs wc). split.
    + intros p n Hp Hnd Hl.
      assert (K : keep (Some offp) (w_fs w) (w_fs wc)).
      { destruct Hfs as [H|H]; [eapply undone_keep; exact H | eapply versioned_keep; exact H]. }
      apply (K p n); [intros H; inversion H; contradiction | exact Hnd | exact Hl].
    + cbn [snd]. destruct Hfs as [[[V _]|[[[i [V _]] _] Hl]]|Hv].
      * left. exact V.
      * right. exists i. split; [exact V|]. left. exact Hl.
      * right. pose proof Hv as [f1 [no [[[i [V _]] _] [[V' _] _]]]]. exists i.
        split; [fold offp in V, V'; rewrite V', V; reflexivity|]. right. exact Hv.
Qed.

(* file_step = read_counter (for a history head), then copy_step *)
Theorem file_step_outcome o w :
  t_frames (w_tr w) = [] ->
  post (fun r w' => exists l off wr, rd_rel w wr l /\
          ((trerr w wr /\ r = (TError, h1) /\ w' = wr) \/
           (w_tr wr = w_tr w /\
            (off = (if st_ish meta then pos_at offp (w_fs w) else 0%N) \/ In (COpenR offp, RFault ENOENT) l) /\
            copy_step h1 path meta version k off o wr = (Some r, w'))))
       (fun _ => True) (file_step h1 path meta version k o w).
Proof.
  intros Hfr. assert (Hok : tr_ok (w_tr w) = true) by (unfold tr_ok; rewrite Hfr; reflexivity).
  unfold file_step. destruct (st_ish meta).
  - apply post_bind. eapply post_mono; [apply (read_counter_spec offp o w Hok)| |auto].
    intros off wr [l [R Hc]]. cbv beta.
    destruct Hc as [[T V]|T].
    + destruct (copy_step h1 path meta version k off o wr) as [[r|] w'] eqn:E; cbn [post]; [|exact I].
      exists l, off, wr. split; [exact R|]. right. split; [exact T|]. split; [exact V | exact E].
    + rewrite (copy_step_notok h1 path meta version k off o wr (trerr_notok _ _ T)). cbn [post].
      exists l, off, wr. split; [exact R|]. left. split; [exact T|]. split; reflexivity.
  - rewrite bind_ret.
    destruct (copy_step h1 path meta version k 0%N o w) as [[r|] w'] eqn:E; cbn [post]; [|exact I].
    exists [], 0%N, w. split; [apply rd_rel_refl|]. right. split; [reflexivity|].
    split; [left; reflexivity | exact E].
Qed.

End Whole.

(* END TO END.  One iteration of handle_timeout_loop whose head read yields a
   ready, valid FILE head, for every oracle: either read_counter reported an
   error (nothing was touched), or the copy ran from some world [wr] with the
   file system of after the head read, and
     - a failed call of class [reported_class] in the log of the copy makes the
       trace not ok after the copy;
     - when the trace is not ok after the copy: the result is TError with the
       handler as after the head read, "Cannot copy" is on top of the trace,
       the queue link (every non-directory entry except the offset file) is
       looked up as before, and the store has no new entry with the two stated
       exceptions. *)
Theorem timeout_iteration_failed_copy fuel' rev h o w q1 w2 path meta :
  tr_ok (w_tr w) = true ->
  q_get_head (S (N.to_nat (q_size (h_q h)))) (h_q h) o (upd_tr (tr_try (w_tr w)) w)
    = (Some (Some (QReady path meta), q1), w2) ->
  t_frames (w_tr w2) = [] -> t_post (w_tr w2) = 0 ->
  let h1 := set_q q1 h in
  let version := expand_pattern (c_version_pattern (h_cfg h)) (dec (Z.to_N (w_clock w2))) in
  Nat.ltb name_max (length version) = false ->
  existsb is_slash version = false ->
  file_head_valid h1 path meta = true ->
  names_ok h1 path version ->
  match handle_timeout_loop (S fuel') rev h o w with
  | (Some r, w') =>
      exists lr off wr,
        w_fs wr = w_fs w2 /\ (exists lr', w_log wr = lr ++ lr' /\ Forall readp lr) /\
        ((r = (TError, h1) /\ w' = wr /\ tr_ok (w_tr w') = false) \/
         exists res wc l,
           w_log wc = l ++ w_log wr /\ Forall plain l /\
           (existsb (bad (st_offp h1 path)) l = true -> tr_ok (w_tr wc) = false) /\
           (tr_ok (w_tr wc) = false ->
              failed_copy_facts h1 path meta o off wr res wc l r w'))
  | (None, _) => True
  end.
Proof.
  intros Hok Hhead Hfr2 Hpo2 h1 version Hlen Hsl Hval Hn.
  assert (Hok2 : tr_ok (w_tr w2) = true) by (unfold tr_ok; rewrite Hfr2; reflexivity).
  rewrite (timeout_reaches_file_step fuel' rev h o w q1 w2 path meta Hok Hhead Hok2 Hlen Hsl Hval).
  fold h1 version.
  set (w3 := upd_tr (tr_finally_rethrow_static M_linq_cannot_get_head (w_tr w2)) w2).
  destruct (finally_rethrow_frames M_linq_cannot_get_head (w_tr w2) Hfr2 Hpo2) as [Hfr3 Hpo3].
  pose proof (file_step_outcome h1 path meta version (handle_timeout_loop fuel' rev) o w3 Hfr3) as H.
  destruct (file_step h1 path meta version (handle_timeout_loop fuel' rev) o w3) as [[r|] w']; cbn [post] in H; [|exact I].
  destruct H as [lr [off [wr [[L [P F]] Hc]]]]. exists lr, off, wr.
  split; [exact F|]. split; [exists (w_log w3); split; [exact L | exact P]|].
  destruct Hc as [[T [E1 E2]]|[T [_ E]]].
  - left. split; [exact E1|]. split; [exact E2|]. subst w'. apply (trerr_notok _ _ T).
  - right.
    assert (Hfr : t_frames (w_tr wr) = []) by (rewrite T; exact Hfr3).
    assert (Hpo : t_post (w_tr wr) = 0) by (rewrite T; exact Hpo3).
    pose proof (copy_step_failed_copy h1 path meta version (handle_timeout_loop fuel' rev) o wr off Hn Hfr Hpo) as H.
    rewrite E in H. cbn [post] in H.
    destruct H as [res [wc [l [A [B [_ [C D]]]]]]]. exists res, wc, l. auto.
Qed.

(* ====================================================================== *)
(* 5. expected conditions do not stop the daemon (benign oracles)         *)
(* ====================================================================== *)

(* the queue relation survives an abandoned copy *)
Lemma QRel_abandoned q f f' ents dst :
  QueueProofs.QRel q f ents -> abandoned dst f f' -> ~ In (q_dir q) (parents_of dst) ->
  QueueProofs.QRel q f' ents.
Proof.
  intros HR [A1 [_ [A3 [A4 _]]]] Hq. destruct HR as [R1 R2 R3 R4 R5 R6 R7 R8].
  constructor; try assumption.
  - destruct (A4 _ R3) as [H|[H _]]; [exact H | contradiction].
  - intros i p m t Hn. apply A3. exact (R5 i p m t Hn).
  - intros n Hk. apply A1. exact (R6 n Hk).
Qed.

Section Expected.
Variables (h1 : handler) (path : str) (meta : N) (version : str).
Variable k : handler -> M (tresult * handler).
Let cfg := h_cfg h1.
Let dst := current_path (st_sp h1 path version).

(* the copy loop when sync_file ends with one of the caught messages *)
Lemma loop_expected o w fuel off n w1 m :
  t_frames (w_tr w) = [] -> t_post (w_tr w) = 0 ->
  sync_file dst path off o (upd_tr (tr_try (w_tr w)) w) = (Some n, w1) ->
  w_tr w1 = tr_push (FStatic m) (tr_try (w_tr w)) ->
  m = M_src_missing \/ m = M_not_regular \/ m = M_src_denied ->
  file_store_loop (S fuel) (st_sp h1 path version) path (st_offp h1 path) off (st_ish meta) cfg o w
  = (Some (match m with M_src_denied => c_ev_forbidden cfg | _ => c_ev_deleted cfg end, false,
           st_sp h1 path version),
     upd_tr (w_tr w) w1).
Proof.
  intros Hfr Hpo Es Et Hm.
  assert (T0 : exists pre, w_tr w = mkTr [] pre 0).
  { destruct (w_tr w) as [fr pre po]. cbn [t_frames t_post] in Hfr, Hpo. subst fr po. exists pre. reflexivity. }
  destruct T0 as [pre T0].
  assert (T1 : w_tr w1 = mkTr [FStatic m] (S pre) 0) by (rewrite Et, T0; reflexivity).
  cbn [file_store_loop]. unfold try_. rewrite bind_mod_tr.
  unfold bind at 1. fold dst. rewrite Es. clear Es Et.
  assert (Hfin : forall x : option str * bool * store_path,
            (finally_;; ret_ x) o (upd_tr (mkTr [] (S pre) 0) w1) = (Some x, upd_tr (w_tr w) w1)).
  { intros x. unfold finally_. rewrite bind_mod_tr. unfold ret_. rewrite upd_tr_upd, T0. reflexivity. }
  destruct Hm as [->|[->| ->]].
  - rewrite bind_catch_static, T1. cbn [tr_catch_static t_post t_frames Nat.eqb msg_eqb fst snd t_pre].
    rewrite bind_ret. cbv iota. apply Hfin.
  - rewrite bind_catch_static, T1. cbn [tr_catch_static t_post t_frames Nat.eqb msg_eqb fst snd t_pre].
    cbv iota. rewrite <- T1, upd_tr_same.
    rewrite bind_catch_static, T1. cbn [tr_catch_static t_post t_frames Nat.eqb msg_eqb fst snd t_pre].
    cbv iota. apply Hfin.
  - rewrite bind_catch_static, T1. cbn [tr_catch_static t_post t_frames Nat.eqb msg_eqb fst snd t_pre].
    cbv iota. rewrite <- T1, upd_tr_same.
    rewrite bind_catch_static, T1. cbn [tr_catch_static t_post t_frames Nat.eqb msg_eqb fst snd t_pre].
    cbv iota. rewrite <- T1, upd_tr_same.
    rewrite bind_catch_static, T1. cbn [tr_catch_static t_post t_frames Nat.eqb msg_eqb fst snd t_pre].
    cbv iota. apply Hfin.
Qed.

(* Lifting to the iteration: sync_file ended with a caught message, leaving
   the file system "abandoned"; then, under a benign oracle, the iteration
   goes on with an ok trace: the head is popped (on disk and in memory), and
   what remains is the journal line and the rest of the pass. *)
Theorem expected_condition_continues o w off n w1 m p mt t rest :
  benign o ->
  t_frames (w_tr w) = [] -> t_post (w_tr w) = 0 ->
  sync_file dst path (N.to_nat off) o (upd_tr (tr_try (w_tr w)) w) = (Some n, w1) ->
  w_tr w1 = tr_push (FStatic m) (tr_try (w_tr w)) ->
  m = M_src_missing \/ m = M_not_regular \/ m = M_src_denied ->
  abandoned dst (w_fs w) (w_fs w1) -> keys_nodup (w_fs w1) ->
  QueueProofs.QRel (h_q h1) (w_fs w) ((p, mt, t) :: rest) ->
  ~ In (q_dir (h_q h1)) (parents_of dst) ->
  let h2 := set_q (QueueProofs.popped p (h_q h1)) h1 in
  let ev := match m with M_src_denied => c_ev_forbidden cfg | _ => c_ev_deleted cfg end in
  exists w2,
    copy_step h1 path meta version k off o w = (record_event ev 0%N (st_rel h1 path) h2;; k h2) o w2 /\
    w_tr w2 = w_tr w /\
    w_fs w2 = del_dent (QueueProofs.head_name (h_q h1)) (w_fs w1) /\
    lookup (w_fs w2) (QueueProofs.head_name (h_q h1)) = None /\
    (forall x, x <> QueueProofs.head_name (h_q h1) -> lookup (w_fs w2) x = lookup (w_fs w1) x) /\
    (* nothing is stored: no path that was free before is taken now *)
    (forall x, lookup (w_fs w) x = None -> lookup (w_fs w2) x = None) /\
    QueueProofs.QRel (QueueProofs.popped p (h_q h1)) (w_fs w2) rest.
Proof.
  intros Hb Hfr Hpo Es Et Hm Hab Hnd HR Hq h2 ev.
  assert (Hok : tr_ok (w_tr w) = true) by (unfold tr_ok; rewrite Hfr; reflexivity).
  set (w1' := upd_tr (w_tr w) w1).
  assert (HR1 : QueueProofs.QRel (h_q h1) (w_fs w1') ((p, mt, t) :: rest)).
  { change (w_fs w1') with (w_fs w1). eapply QRel_abandoned; eassumption. }
  destruct (QueueProofs.pop_ok (h_q h1) p mt t rest o w1' Hb Hok Hnd HR1)
    as [w2 [Ep [HR2 [F2 [_ [[Hok2 T2] [_ [L2 [O2 _]]]]]]]]].
  exists w2. split.
  - unfold copy_step. rewrite bind_is_ok, Hok. cbn [negb]. rewrite bind_get_fs.
    unfold bind at 1. unfold copy_fuel.
    rewrite (loop_expected o w _ (N.to_nat off) n w1 m Hfr Hpo Es Et Hm). fold w1'.
    unfold file_finish. unfold bind at 1. rewrite Ep. rewrite bind_is_ok, Hok2. cbn [negb].
    rewrite andb_false_r. rewrite bind_ret. reflexivity.
  - split; [apply (T2 Hpo)|]. split; [exact F2|]. split; [exact L2|]. split; [exact O2|].
    split; [|exact HR2].
    intros x Hx. destruct Hab as [A1 _]. specialize (A1 x Hx).
    destruct (str_eqb_spec x (QueueProofs.head_name (h_q h1))) as [->|Hne]; [exact L2|].
    rewrite (O2 x Hne). exact A1.
Qed.

End Expected.

(* the three expected conditions, with the sync_file facts of AbandonProofs *)
Section ExpectedCases.
Variables (h1 : handler) (path : str) (meta : N) (version : str).
Variable k : handler -> M (tresult * handler).
Let cfg := h_cfg h1.
Let dst := current_path (st_sp h1 path version).

Definition goes_on (ev : option str) (o : oracle) (w : world) (off : N) (p : str) (rest : list LinqSpec.qent) : Prop :=
  let h2 := set_q (QueueProofs.popped p (h_q h1)) h1 in
  exists w2,
    copy_step h1 path meta version k off o w = (record_event ev 0%N (st_rel h1 path) h2;; k h2) o w2 /\
    w_tr w2 = w_tr w /\
    lookup (w_fs w2) (QueueProofs.head_name (h_q h1)) = None /\
    (forall x, lookup (w_fs w) x = None -> lookup (w_fs w2) x = None) /\
    QueueProofs.QRel (QueueProofs.popped p (h_q h1)) (w_fs w2) rest.

Hypothesis dst_abs : exists r, dst = ch_slash :: r.

Theorem missing_source_does_not_stop o w off p mt t rest :
  benign o -> t_frames (w_tr w) = [] -> t_post (w_tr w) = 0 ->
  (forall d, In d (parents_of dst) -> lookup (w_fs w) d = Some NDir \/ lookup (w_fs w) d = None) ->
  keys_nodup (w_fs w) -> parents_exist (w_fs w) ->
  lookup (w_fs w) path = None -> ~ In path (parents_of dst) ->
  QueueProofs.QRel (h_q h1) (w_fs w) ((p, mt, t) :: rest) ->
  ~ In (q_dir (h_q h1)) (parents_of dst) ->
  goes_on (c_ev_deleted cfg) o w off p rest.
Proof.
  intros Hb Hfr Hpo Hpar Hnd Hpe Hsrc Hnin HR Hq.
  set (wa := upd_tr (tr_try (w_tr w)) w).
  assert (Hoka : tr_ok (w_tr wa) = true).
  { unfold wa, tr_try, tr_ok. cbn [upd_tr w_tr]. rewrite Hfr. reflexivity. }
  destruct (sync_file_src_missing o wa dst path (N.to_nat off) Hb Hoka dst_abs Hpar Hnd Hpe Hsrc Hnin)
    as [w1 [Es [Et [_ [_ [_ [Hnd1 [_ Hab]]]]]]]].
  destruct (expected_condition_continues h1 path meta version k o w off 0 w1 M_src_missing p mt t rest
              Hb Hfr Hpo Es Et (or_introl eq_refl) Hab Hnd1 HR Hq)
    as [w2 [E [T [_ [L [_ [N Q]]]]]]].
  exists w2. split; [exact E|]. split; [exact T|]. split; [exact L|]. split; [exact N | exact Q].
Qed.

Theorem unreadable_source_does_not_stop o w off i p mt t rest :
  benign o -> t_frames (w_tr w) = [] -> t_post (w_tr w) = 0 ->
  (forall d, In d (parents_of dst) -> lookup (w_fs w) d = Some NDir \/ lookup (w_fs w) d = None) ->
  keys_nodup (w_fs w) -> parents_exist (w_fs w) ->
  lookup (w_fs w) path = Some (NFile i) -> f_readable (get_file (w_fs w) i) = false ->
  QueueProofs.QRel (h_q h1) (w_fs w) ((p, mt, t) :: rest) ->
  ~ In (q_dir (h_q h1)) (parents_of dst) ->
  goes_on (c_ev_forbidden cfg) o w off p rest.
Proof.
  intros Hb Hfr Hpo Hpar Hnd Hpe Hsrc Hrd HR Hq.
  set (wa := upd_tr (tr_try (w_tr w)) w).
  assert (Hoka : tr_ok (w_tr wa) = true).
  { unfold wa, tr_try, tr_ok. cbn [upd_tr w_tr]. rewrite Hfr. reflexivity. }
  destruct (sync_file_src_denied o wa dst path (N.to_nat off) i Hb Hoka dst_abs Hpar Hnd Hpe Hsrc Hrd)
    as [w1 [Es [Et [_ [_ [_ [Hnd1 [_ Hab]]]]]]]].
  destruct (expected_condition_continues h1 path meta version k o w off 0 w1 M_src_denied p mt t rest
              Hb Hfr Hpo Es Et (or_intror (or_intror eq_refl)) Hab Hnd1 HR Hq)
    as [w2 [E [T [_ [L [_ [N Q]]]]]]].
  exists w2. split; [exact E|]. split; [exact T|]. split; [exact L|]. split; [exact N | exact Q].
Qed.

Theorem non_regular_source_does_not_stop o w off p mt t rest :
  benign o -> t_frames (w_tr w) = [] -> t_post (w_tr w) = 0 ->
  lookup (w_fs w) dst = None ->
  (forall d, In d (parents_of dst) -> lookup (w_fs w) d = Some NDir \/ lookup (w_fs w) d = None) ->
  keys_nodup (w_fs w) -> parents_exist (w_fs w) ->
  lookup (w_fs w) path = Some NDir ->
  QueueProofs.QRel (h_q h1) (w_fs w) ((p, mt, t) :: rest) ->
  ~ In (q_dir (h_q h1)) (parents_of dst) ->
  goes_on (c_ev_deleted cfg) o w off p rest.
Proof.
  intros Hb Hfr Hpo Hdst Hpar Hnd Hpe Hsrc HR Hq.
  set (wa := upd_tr (tr_try (w_tr w)) w).
  assert (Hoka : tr_ok (w_tr wa) = true).
  { unfold wa, tr_try, tr_ok. cbn [upd_tr w_tr]. rewrite Hfr. reflexivity. }
  destruct (sync_file_src_directory o wa dst path (N.to_nat off) Hb Hoka dst_abs Hdst Hpar Hnd Hpe Hsrc)
    as [w1 [Es [Et [_ [_ [_ [_ [Hnd1 [_ Hab]]]]]]]]].
  destruct (expected_condition_continues h1 path meta version k o w off 0 w1 M_not_regular p mt t rest
              Hb Hfr Hpo Es Et (or_intror (or_introl eq_refl)) Hab Hnd1 HR Hq)
    as [w2 [E [T [_ [L [_ [N Q]]]]]]].
  exists w2. split; [exact E|]. split; [exact T|]. split; [exact L|]. split; [exact N | exact Q].
Qed.

End ExpectedCases.

(* ====================================================================== *)
(* 6. a concrete pass: every call index failed in turn                    *)
(* ====================================================================== *)

Module FaultExample.
  Local Open Scope char_scope.

  Definition p_store : str := ["/"; "s"].
  Definition p_pstore : str := ["/"; "p"].
  Definition p_unst : str := ["/"; "u"].
  Definition p_queue : str := ["/"; "q"].
  Definition p_off : str := ["/"; "o"].
  Definition p_journal : str := ["/"; "j"].
  Definition path0 : str := ["/"; "w"; "/"; "a"].       (* the edited file: a history path *)
  Definition offp0 : str := ["/"; "o"; "/"; "w"; "/"; "a"].
  Definition qlink : str := ["/"; "q"; "/"; "0"].
  Definition dst0 : str := ["/"; "s"; "/"; "w"; "/"; "a"; "/"; "1"; "0"; "0"].
  Definition version0 : str := ["1"; "0"; "0"].

  Definition cfg0 : config :=
    mkCfg [] (mkRules [] [] [] [] [] []) p_store p_pstore p_unst p_queue (Some p_journal) p_off
          [] ["%"; "s"] 0%Z 0 16 None None None None
          (Some ["g"; "o"; "n"; "e"]) (Some ["d"; "e"; "n"; "i"; "e"; "d"])
          (Some ["s"; "t"; "o"; "r"; "e"; "d"]).

  (* /o/w/a remembers position 12; /w/a has 17 bytes; [src]: the entry of the source *)
  Definition fs_with (src : list (str * node)) (readable : bool) : fs :=
    mkFs ([ (p_store, NDir); (p_off, NDir); (["/"; "o"; "/"; "w"], NDir); (offp0, NFile 2);
            (p_journal, NFile 3); (p_queue, NDir);
            (qlink, NLink (encode 2 path0) 0%Z); (["/"; "w"], NDir) ] ++ src)
         [ (2, mkFile ["1"; "2"] true); (3, mkFile [] true);
           (4, mkFile ["o"; "l"; "d"; "e"; "r"; "_"; "o"; "l"; "d"; "e"; "r"; "_"; "n"; "e"; "w"; "e"; "r"] readable) ]
         5.
  Definition fs0 : fs := fs_with [(path0, NFile 4)] true.

  Definition q0 : qmem := mkQ p_queue 0 1 0%Z 16 [path0].
  Definition h0 : handler := mkH cfg0 None 1 q0 (Some (mkJ 3 ["%"; "s"])) [] [].
  Definition w0 : world := mkW fs0 0 [] 100%Z tr_empty.

  Definition s_newer : str := ["n"; "e"; "w"; "e"; "r"].
  Definition s_17 : str := ["1"; "7"].
  Definition p_swa : str := ["/"; "s"; "/"; "w"; "/"; "a"].
  Definition p_w : str := ["/"; "w"].
  Local Close Scope char_scope.

  Definition fail_at (k : nat) (e : errno) : oracle := fun i => if Nat.eqb i k then FFail e else FNone.

  (* the fault-free pass: head read (calls 0-1), read_counter (2-6), the copy
     (7-23: mkdir x3, open, create, fstat, sendfile x2, close x2; then the
     position: mkdir x2, open, ftruncate, write x2, close), pop (24-25),
     journal (26) *)
  Example fault_free_pass :
    let '(r, w) := handle_timeout false h0 no_faults w0 in
    (match r with Some (TPause _, _) => True | _ => False end) /\
    tr_ok (w_tr w) = true /\ w_n w = 27 /\
    lookup (w_fs w) qlink = None /\
    lookup (w_fs w) dst0 = Some (NFile 5) /\
    f_bytes (get_file (w_fs w) 5) = s_newer /\
    content offp0 (w_fs w) = Some s_17.
  Proof. vm_compute. repeat split. Qed.

  (* ----- the hypotheses of the theorems hold at the point where the copy starts ----- *)

  (* the world after the head read and read_counter, without faults *)
  Definition w_head : world :=
    snd ((try_;; q_get_head 2 q0) no_faults w0).
  Definition w3 : world := upd_tr (tr_finally_rethrow_static M_linq_cannot_get_head (w_tr w_head)) w_head.
  Definition wR : world := snd (read_counter offp0 no_faults w3).

  Example pass_is_file_step :
    handle_timeout_loop 3 false h0 no_faults w0
    = file_step h0 path0 2 version0 (handle_timeout_loop 2 false) no_faults w3.
  Proof.
    apply (timeout_reaches_file_step 2 false h0 no_faults w0 q0 w_head path0 2);
      vm_compute; reflexivity.
  Qed.

  Lemma names_ok0 : names_ok h0 path0 version0.
  Proof.
    intros n H. unfold current_path in H. cbn [sp_base sp_ext sp_dups] in H.
    assert (Hb : sp_base (st_sp h0 path0 version0) = dst0) by (vm_compute; reflexivity).
    rewrite Hb in H. apply (f_equal (fun s => nth 1 s ch_dot)) in H.
    destruct (n =? 0)%N; vm_compute in H; discriminate.
  Qed.

  Example hyps_hold :
    names_ok h0 path0 version0 /\
    t_frames (w_tr wR) = [] /\ t_post (w_tr wR) = 0 /\
    st_offp h0 path0 = offp0 /\ st_ish 2 = true /\
    offset_inode_allocated h0 path0 (w_fs wR) /\
    pos h0 path0 (w_fs wR) = 12%N /\
    fst (read_counter offp0 no_faults w3) = Some 12%N /\
    file_head_valid h0 path0 2 = true.
  Proof.
    split; [exact names_ok0|]. split; [vm_compute; reflexivity|]. split; [vm_compute; reflexivity|].
    split; [vm_compute; reflexivity|]. split; [vm_compute; reflexivity|].
    split.
    { intros i Hi. assert (E : lookup (w_fs wR) (st_offp h0 path0) = Some (NFile 2)) by (vm_compute; reflexivity).
      rewrite E in Hi. inversion Hi; subst. vm_compute. lia. }
    split; [vm_compute; reflexivity|]. split; vm_compute; reflexivity.
  Qed.

  (* the theorems, instantiated: for EVERY oracle, from the point where the copy starts *)
  Example reported_for_every_oracle (o : oracle) k :
    match copy_step h0 path0 2 version0 k 12%N o wR with
    | (Some r, w') =>
        exists wc l,
          w_log wc = l ++ w_log wR /\
          (existsb (bad offp0) l = true -> r = (TError, h0) /\ tr_ok (w_tr w') = false /\ w' = stopped path0 wc)
    | (None, _) => True
    end.
  Proof.
    destruct hyps_hold as [H1 [H2 [H3 _]]].
    pose proof (fault_is_reported h0 path0 2 version0 k o wR 12%N H1 H2 H3 o wR eq_refl eq_refl) as H.
    destruct (copy_step h0 path0 2 version0 k 12%N o wR) as [[r|] w']; [|exact I].
    destruct H as [res [wc [l [L [_ Hb]]]]]. exists wc, l. split; [exact L|].
    intros B. destruct (Hb B) as [_ [_ [E1 [E2 E3]]]]. auto.
  Qed.

  (* the end-to-end theorem applies to the pass under EVERY oracle that lets
     the head read (calls 0 and 1) through *)
  Definition after_head (o' : oracle) : oracle := fun i => if Nat.ltb i 2 then FNone else o' i.

  Example iteration_theorem_applies (o' : oracle) :
    let o := after_head o' in
    match handle_timeout_loop 3 false h0 o w0 with
    | (Some r, w') =>
        exists lr off wr,
          w_fs wr = fs0 /\ (exists lr', w_log wr = lr ++ lr' /\ Forall readp lr) /\
          ((r = (TError, h0) /\ w' = wr /\ tr_ok (w_tr w') = false) \/
           exists res wc l,
             w_log wc = l ++ w_log wr /\ Forall plain l /\
             (existsb (bad offp0) l = true -> tr_ok (w_tr wc) = false) /\
             (tr_ok (w_tr wc) = false -> failed_copy_facts h0 path0 2 o off wr res wc l r w'))
    | (None, _) => True
    end.
  Proof.
    intros o.
    assert (Hhead : q_get_head (S (N.to_nat (q_size (h_q h0)))) (h_q h0) o (upd_tr (tr_try (w_tr w0)) w0)
                    = (Some (Some (QReady path0 2), q0), w_head)) by (vm_compute; reflexivity).
    pose proof (timeout_iteration_failed_copy 2 false h0 o w0 q0 w_head path0 2 eq_refl Hhead) as T.
    change (set_q q0 h0) with h0 in T.
    apply T; try (vm_compute; reflexivity). exact names_ok0.
  Qed.

  (* ----- every call index failed in turn with EIO ----- *)

  Definition keys_eqb (a b : list (str * node)) : bool :=
    Nat.eqb (length a) (length b) && forallb (fun xy => str_eqb (fst (fst xy)) (fst (snd xy))) (combine a b).
  Definition no_unlinkat (l : list (call * ret)) : bool :=
    forallb (fun cr => match fst cr with CUnlinkat _ _ => false | _ => true end) l.
  Definition vd0 : list (str * node) := vdents offp0 fs0.
  Definition pos_of (f : fs) : N := match content offp0 f with Some b => undec b | None => 0%N end.

  (* what is checked after the pass in which call k failed *)
  Definition check (k : nat) : bool :=
    let '(r, w) := handle_timeout false h0 (fail_at k EIO) w0 in
    match nth_error (rev (w_log w)) k with
    | Some (c, RFault EIO) =>
        if (7 <=? k) && (k <=? 23) then
          (* call 15 is the close of the complete copy: reported although close is
             not in the context-free class (see [closes] in sync_post) *)
          if reported_class offp0 c EIO || (k =? 15) then
            match r with
            | Some (TError, h') =>
                (* (1) reported, the "stop" result *)
                negb (tr_ok (w_tr w)) &&
                match t_frames (w_tr w) with FStatic M_store_cannot_copy :: _ => true | _ => false end &&
                (* (2) the head stays: in memory, on disk, no unlinkat at all *)
                (q_size (h_q h') =? 1)%N &&
                match lookup (w_fs w) qlink with Some (NLink _ _) => true | _ => false end &&
                no_unlinkat (w_log w) &&
                (* (3) no new version -- unless the copy was complete and the position update failed *)
                (keys_eqb (vdents offp0 (w_fs w)) vd0 ||
                 ((17 <=? k) && keys_eqb (vdents offp0 (w_fs w)) (vd0 ++ [(dst0, NFile 5)]))) &&
                (* (4) the position is not rewound -- unless a write of the update failed (K1) *)
                ((12 <=? pos_of (w_fs w))%N || (21 <=? k))
            | _ => false
            end
          else
            (* a close whose failure is ignored by design: the pass completes *)
            match c, r with
            | CClose, Some (TPause _, _) =>
                tr_ok (w_tr w) &&
                match lookup (w_fs w) qlink with None => true | _ => false end &&
                match lookup (w_fs w) dst0 with Some (NFile _) => true | _ => false end &&
                (pos_of (w_fs w) =? 17)%N
            | _, _ => false
            end
        else
          (* a failure outside the copy (head read, read_counter, pop, journal):
             reported as well, except the ignored close of read_counter *)
          match c, r with
          | CClose, Some (TPause _, _) => tr_ok (w_tr w)
          | _, Some (TError, _) => negb (tr_ok (w_tr w))
          | _, _ => false
          end
    | Some _ => false
    | None => Nat.leb 27 k        (* the pass has only 27 calls *)
    end.

  Example every_call_failed_in_turn : forallb check (seq 0 30) = true.
  Proof. vm_compute. reflexivity. Qed.

  (* which indices are reported / ignored in the copy phase *)
  Example reported_indices :
    filter (fun k => let '(r, w) := handle_timeout false h0 (fail_at k EIO) w0 in negb (tr_ok (w_tr w)))
           (seq 7 17)
    = [7; 8; 9; 10; 11; 12; 13; 14; 15; 17; 18; 19; 20; 21; 22].
  Proof. vm_compute. reflexivity. Qed.

  (* ----- statements that do NOT hold, with witnesses ----- *)

  (* "every failing call other than the three expected conditions is reported"
     is false as it stands: the close of the source (call 16) and the close of
     the offset file (call 23) fail with EIO, yet the pass completes with an ok
     trace (close(in_fd) and the close in write_counter are unchecked in the C
     code; the copy is complete, so no work is lost) *)
  Example every_failure_is_reported_refuted :
    exists k c, 7 <= k <= 23 /\
      let '(r, w) := handle_timeout false h0 (fail_at k EIO) w0 in
      nth_error (rev (w_log w)) k = Some (c, RFault EIO) /\
      tr_ok (w_tr w) = true /\ (match r with Some (TPause _, _) => True | _ => False end).
  Proof. exists 16, CClose. split; [lia|]. vm_compute. repeat split. Qed.

  (* K1: a failing write of the position update rewinds the position (12 -> 0);
     the version is complete, the head stays, the error is reported *)
  Example position_can_rewind_K1 :
    let '(r, w) := handle_timeout false h0 (fail_at 21 EIO) w0 in
    pos_of fs0 = 12%N /\ pos_of (w_fs w) = 0%N /\ content offp0 (w_fs w) = Some [] /\
    tr_ok (w_tr w) = false /\
    f_bytes (get_file (w_fs w) 5) = s_newer /\
    lookup (w_fs w) qlink = Some (NLink (encode 2 path0) 0%Z).
  Proof. vm_compute. repeat split. Qed.

  (* ----- the expected conditions ----- *)

  Definition fs_missing : fs := fs_with [] true.
  Definition fs_denied : fs := fs_with [(path0, NFile 4)] false.
  Definition fs_dir : fs := fs_with [(path0, NDir)] true.
  Definition w_of (f : fs) : world := mkW f 0 [] 100%Z tr_empty.

  Example expected_conditions_pass :
    (let '(r, w) := handle_timeout false h0 no_faults (w_of fs_missing) in
     (match r with Some (TPause _, _) => True | _ => False end) /\ tr_ok (w_tr w) = true /\
     lookup (w_fs w) qlink = None /\ vdents offp0 (w_fs w) = [(p_journal, NFile 3)]) /\
    (let '(r, w) := handle_timeout false h0 no_faults (w_of fs_denied) in
     (match r with Some (TPause _, _) => True | _ => False end) /\ tr_ok (w_tr w) = true /\
     lookup (w_fs w) qlink = None /\ vdents offp0 (w_fs w) = [(p_journal, NFile 3); (path0, NFile 4)]) /\
    (let '(r, w) := handle_timeout false h0 no_faults (w_of fs_dir) in
     (match r with Some (TPause _, _) => True | _ => False end) /\ tr_ok (w_tr w) = true /\
     lookup (w_fs w) qlink = None /\ vdents offp0 (w_fs w) = [(p_journal, NFile 3)]).
  Proof. vm_compute. repeat split. Qed.

  (* the parent directory of the source has been replaced by a regular file:
     the open answers ENOTDIR, which is the expected condition "the source does
     not exist" (journalled as deleted, head popped, trace ok) *)
  Definition fs_notdir : fs :=
    mkFs [ (p_store, NDir); (p_off, NDir); (p_journal, NFile 3); (p_queue, NDir);
           (qlink, NLink (encode 2 path0) 0%Z); (p_w, NFile 4) ]
         [ (3, mkFile [] true); (4, mkFile s_newer true) ] 5.

  Example source_under_a_file_is_deleted :
    fs_open_read path0 fs_notdir = inr ENOTDIR /\
    let '(r, w) := handle_timeout false h0 no_faults (w_of fs_notdir) in
    (match r with Some (TPause _, _) => True | _ => False end) /\ tr_ok (w_tr w) = true /\
    lookup (w_fs w) qlink = None /\
    vdents offp0 (w_fs w) = [(p_journal, NFile 3); (p_w, NFile 4)] /\
    existsb (fun cr => match cr with (COpenR _, RErr ENOTDIR) => true | _ => false end) (w_log w) = true.
  Proof. vm_compute. repeat split. Qed.

  (* clean_up drops its errors: with the source missing, a failing rmdir of the
     clean-up (call 11) is not reported; the empty directories stay *)
  Example cleanup_failure_is_swallowed :
    let '(r, w) := handle_timeout false h0 (fail_at 11 EIO) (w_of fs_missing) in
    nth_error (rev (w_log w)) 11 = Some (CRmdir p_swa, RFault EIO) /\
    tr_ok (w_tr w) = true /\ (match r with Some (TPause _, _) => True | _ => False end) /\
    lookup (w_fs w) p_swa = Some NDir.
  Proof. vm_compute. repeat split. Qed.

  (* exception (a) of failed_copy_leaves_no_version is real, and in the
     "source is not a regular file" case it is even SWALLOWED: the unlink of
     the destination fails (call 15), the condition is caught as "deleted", the
     pass goes on with an ok trace and pops the head -- an empty version file
     is left in the store *)
  Example failed_unlink_leaves_empty_version :
    let '(r, w) := handle_timeout false h0 (fail_at 15 EIO) (w_of fs_dir) in
    nth_error (rev (w_log w)) 15 = Some (CUnlink dst0, RFault EIO) /\
    tr_ok (w_tr w) = true /\ (match r with Some (TPause _, _) => True | _ => False end) /\
    lookup (w_fs w) qlink = None /\
    lookup (w_fs w) dst0 = Some (NFile 5) /\ f_bytes (get_file (w_fs w) 5) = [].
  Proof. vm_compute. repeat split. Qed.

  (* ----- the hypotheses of the "expected condition" theorems are satisfiable ----- *)

  Lemma no_faults_benign : benign no_faults.
  Proof. intros i. left. reflexivity. Qed.

  Lemma q_free (src : list (str * node)) rd k :
    (forall e, In e src -> fst e = path0) ->
    (1 <= k)%N -> lookup (fs_with src rd) (join p_queue (dec k)) = None.
  Proof.
    intros Hsrc Hk.
    assert (Hj : join p_queue (dec k) = p_queue ++ ch_slash :: dec k)
      by (apply QueueProofs.join_nonroot; discriminate).
    unfold lookup.
    destruct (str_eqb_spec (join p_queue (dec k)) root_path) as [E|_].
    { exfalso. revert E. apply QueueProofs.join_dec_nonroot. discriminate. }
    rewrite Hj. unfold fs_with. cbn [fs_dents app alookup p_queue].
    repeat match goal with
    | |- context [str_eqb ?a ?b] =>
        destruct (str_eqb_spec a b) as [E|_];
        [exfalso; first [discriminate E
                        | injection E as E; apply (dec_inj k 0) in E; lia ]|]
    end.
    induction src as [|[p n] src IH]; [reflexivity|]. cbn [alookup].
    assert (Hp : p = path0) by (apply (Hsrc (p, n)); left; reflexivity). subst p.
    destruct (str_eqb_spec (ch_slash :: "q"%char :: ch_slash :: dec k) path0) as [E|_]; [discriminate E|].
    apply IH. intros e He. apply Hsrc. right. exact He.
  Qed.

  Lemma q0_rel src rd :
    (forall e, In e src -> fst e = path0) ->
    QueueProofs.QRel q0 (fs_with src rd) [(path0, 2%N, 0%Z)].
  Proof.
    intros Hsrc. constructor.
    - reflexivity.
    - discriminate.
    - vm_compute. reflexivity.
    - discriminate.
    - intros i p m t Hi. destruct i as [|i]; [|destruct i; discriminate].
      inversion Hi; subst. vm_compute. reflexivity.
    - intros n [H|H]; [cbn [q_head q0] in H; lia|]. apply q_free; [exact Hsrc|].
      cbn [q_head q0 length] in H. lia.
    - intros v. cbn [q_bag q0]. unfold bag_count. cbn [filter LinqProofs.count_paths LinqSpec.qpath fst].
      destruct (str_eqb v path0); reflexivity.
    - constructor; [|constructor]. split.
      + apply LinqProofs.normalb_spec. vm_compute. reflexivity.
      + unfold QueueProofs.fits. apply QueueProofs.QueueExample.fits_small. vm_compute. lia.
  Qed.

  Ltac nodup_keys :=
    unfold keys_nodup; vm_compute;
    repeat (constructor; [simpl; intuition discriminate|]); constructor.

  (* the source is missing: for every benign oracle the pass goes on, the head
     is popped, nothing is stored *)
  Example missing_source_by_theorem (o : oracle) k :
    benign o ->
    goes_on h0 path0 2 version0 k (c_ev_deleted cfg0) o (w_of fs_missing) 12%N path0 [].
  Proof.
    intros Hb.
    apply (missing_source_does_not_stop h0 path0 2 version0 k) with (mt := 2%N) (t := 0%Z).
    - eexists. vm_compute. reflexivity.
    - exact Hb.
    - reflexivity.
    - reflexivity.
    - intros d Hd. vm_compute in Hd. destruct Hd as [<-|[<-|[<-|[]]]]; vm_compute; auto.
    - nodup_keys.
    - apply parents_exist_b_sound. vm_compute. reflexivity.
    - vm_compute. reflexivity.
    - vm_compute. intuition discriminate.
    - apply (q0_rel [] true). intros e [].
    - vm_compute. intuition discriminate.
  Qed.

  Example unreadable_source_by_theorem (o : oracle) k :
    benign o ->
    goes_on h0 path0 2 version0 k (c_ev_forbidden cfg0) o (w_of fs_denied) 12%N path0 [].
  Proof.
    intros Hb.
    apply (unreadable_source_does_not_stop h0 path0 2 version0 k) with (i := 4) (mt := 2%N) (t := 0%Z).
    - eexists. vm_compute. reflexivity.
    - exact Hb.
    - reflexivity.
    - reflexivity.
    - intros d Hd. vm_compute in Hd. destruct Hd as [<-|[<-|[<-|[]]]]; vm_compute; auto.
    - nodup_keys.
    - apply parents_exist_b_sound. vm_compute. reflexivity.
    - vm_compute. reflexivity.
    - vm_compute. reflexivity.
    - apply (q0_rel [(path0, NFile 4)] false). intros e [<-|[]]. reflexivity.
    - vm_compute. intuition discriminate.
  Qed.

  Example directory_source_by_theorem (o : oracle) k :
    benign o ->
    goes_on h0 path0 2 version0 k (c_ev_deleted cfg0) o (w_of fs_dir) 12%N path0 [].
  Proof.
    intros Hb.
    apply (non_regular_source_does_not_stop h0 path0 2 version0 k) with (mt := 2%N) (t := 0%Z).
    - eexists. vm_compute. reflexivity.
    - exact Hb.
    - reflexivity.
    - reflexivity.
    - vm_compute. reflexivity.
    - intros d Hd. vm_compute in Hd. destruct Hd as [<-|[<-|[<-|[]]]]; vm_compute; auto.
    - nodup_keys.
    - apply parents_exist_b_sound. vm_compute. reflexivity.
    - vm_compute. reflexivity.
    - apply (q0_rel [(path0, NDir)] true). intros e [<-|[]]. reflexivity.
    - vm_compute. intuition discriminate.
  Qed.
End FaultExample.

Print Assumptions sync_file_spec.
Print Assumptions write_counter_spec.
Print Assumptions file_store_loop_spec.
Print Assumptions crash_during_copy_keeps_entries.
Print Assumptions copy_step_outcome.
Print Assumptions fault_is_reported.
Print Assumptions failed_copy_keeps_entry.
Print Assumptions failed_copy_leaves_no_version.
Print Assumptions position_not_rewound.
Print Assumptions timeout_reaches_file_step.
Print Assumptions read_counter_spec.
Print Assumptions copy_step_failed_copy.
Print Assumptions file_step_outcome.
Print Assumptions timeout_iteration_failed_copy.
Print Assumptions expected_condition_continues.
Print Assumptions missing_source_does_not_stop.
Print Assumptions unreadable_source_does_not_stop.
Print Assumptions non_regular_source_does_not_stop.
Print Assumptions FaultExample.every_call_failed_in_turn.
Print Assumptions FaultExample.hyps_hold.
Print Assumptions FaultExample.reported_for_every_oracle.
Print Assumptions FaultExample.iteration_theorem_applies.
Print Assumptions FaultExample.missing_source_by_theorem.
Print Assumptions FaultExample.unreadable_source_by_theorem.
Print Assumptions FaultExample.directory_source_by_theorem.
