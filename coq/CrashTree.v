(* C03, world level, project entries, part 1: what sync_shallow_tree has done when
   it returns without an error -- for every HONEST oracle (CrashCopy.honest).

   The functional reading of the call sequence:
     mkpar ds f      the file system after "mkdir -p" of the list ds;
     sst_fs f0       the file system after a complete sync_shallow_tree started
                     in f0: ancestors, mkdir of the destination, then the pure
                     loop SnapshotProofs.psteps over the fts walk of the source.
   Under an honest oracle, started with an empty error trace, sync_shallow_tree
   ends in one of four ways (sst_out):
     (a) empty trace, and the file system IS sst_fs f0;
     (b) the trace is exactly "destination already exists", the destination did
         exist and nothing but missing ancestors was created;
     (c) some other error is on top of the trace (never one of the three
         messages project_store_loop catches);
     (d) an access(2) probe was made to fail (CrashLog.AF: it is in the call
         log).  access() is the one call of the snapshot whose EVERY failure is
         read as an expected condition ("the project no longer has this
         entry"): sync.c does `if (!access(..))`.  *)
From K Require Import Str Dec Trace Fs World Progs Elf Linq LinqSpec LinqProofs Sieve Handler Hoare
     Confine Confine2 SyncProofs AbandonProofs StoreFs StoreLogic StoreProgs StoreProofs DecProofs
     QueueProofs CrashFrame CrashLoad CrashQueue CrashCopy CrashLog.
From K Require SnapshotProofs FaultProofs.
From Coq Require Import Lia.

Module FP := FaultProofs.
Module SP := SnapshotProofs.

(* ---------- one call under an honest oracle ---------- *)

Definition good (e : errno) : Prop := e <> ENOENT /\ e <> ENOTDIR /\ e <> EACCES /\ e <> EEXIST.

Lemma post_sys_h {A} c (perform : fs -> ret * A * fs) (on_fail : errno -> A) o w
      (Q : A -> world -> Prop) (C : world -> Prop) :
  honest o -> C w ->
  (forall e, o (w_n w) = FFail e -> good e -> Q (on_fail e) (after_call c (RFault e) (w_fs w) w)) ->
  (forall r a f', perform (w_fs w) = (r, a, f') -> Q a (after_call c r f' w)) ->
  FP.post Q C (sys c perform on_fail o w).
Proof.
  intros Ho Hc Hf Hs. unfold sys. specialize (Ho (w_n w)).
  destruct (o (w_n w)) as [|e|n|n|] eqn:Eo.
  - destruct (perform (w_fs w)) as [[r a] f']. exact (Hs r a f' eq_refl).
  - apply Hf; [reflexivity | exact Ho].
  - destruct (perform (w_fs w)) as [[r a] f']. exact (Hs r a f' eq_refl).
  - destruct (perform (w_fs w)) as [[r a] f']. exact (Hs r a f' eq_refl).
  - exact Hc.
Qed.

Lemma post_sys_unit_h c op o w (Q : option errno -> world -> Prop) (C : world -> Prop) :
  honest o -> C w ->
  (forall e, good e -> Q (Some e) (after_call c (RFault e) (w_fs w) w)) ->
  (forall e f', op (w_fs w) = (e, f') -> Q e (after_call c (err_ret e) f' w)) ->
  FP.post Q C (sys_unit c op o w).
Proof.
  intros Ho Hc Hf Hs. unfold sys_unit. apply post_sys_h; [exact Ho | exact Hc | intros e _; apply Hf |].
  intros r a f' E. destruct (op (w_fs w)) as [e f1]. inversion E; subst. apply Hs. reflexivity.
Qed.

(* a predicate that only grows with the log survives any program *)
Lemma post_lm {A} (L : world -> Prop) (m : M A) o w :
  lm L m -> L w -> FP.post (fun _ w' => L w') L (m o w).
Proof. intros H Hw. exact (H o w I Hw). Qed.

(* The escape: a predicate E on worlds that only grows with the log and that
   holds once an access(2) probe has been made to fail by the oracle o.
   Instances: CrashLog.AF for an arbitrary honest oracle; False for an oracle
   that never fails a call. *)
Section Esc.
Variable E : world -> Prop.
Hypothesis E_stable : stable E.

Lemma post_E {A} (m : M A) o w (Q : A -> world -> Prop) :
  lm E m -> E w -> (forall a w', E w' -> Q a w') -> FP.post Q (fun _ => True) (m o w).
Proof.
  intros H Hw HQ. eapply FP.post_mono; [apply (post_lm E m o w H Hw) | exact HQ | auto].
Qed.

Lemma E_after c r f w : E w -> E (after_call c r f w).
Proof. apply E_stable. Qed.

End Esc.

(* ---------- traces ---------- *)

Definition ok_fr (w : world) : Prop := t_frames (w_tr w) = [].

Lemma ok_fr_tr_ok w : ok_fr w -> tr_ok (w_tr w) = true.
Proof. unfold ok_fr, tr_ok. intros ->. reflexivity. Qed.

Lemma ok_fr_after c r f w : ok_fr w -> ok_fr (after_call c r f w).
Proof. intros H. exact H. Qed.

(* some frame other than the messages the store loops catch is on top *)
Definition oth (w : world) : Prop :=
  exists fr rest, t_frames (w_tr w) = fr :: rest /\ other_frame fr.

Lemma oth_not_ok w : oth w -> tr_ok (w_tr w) = false.
Proof. intros [fr [rest [E _]]]. unfold tr_ok. rewrite E. reflexivity. Qed.

Lemma throw_errno_run e o w :
  throw_errno e o w = (Some tt, Hoare.upd_tr (tr_push (FErrno e) (w_tr w)) w).
Proof. reflexivity. Qed.

Lemma throw_static_run m o w :
  throw_static m o w = (Some tt, Hoare.upd_tr (tr_push (FStatic m) (w_tr w)) w).
Proof. reflexivity. Qed.

Lemma throw3_run e d m o w :
  (throw_errno e;; throw_context d;; throw_static m) o w =
  (Some tt, Hoare.upd_tr (tr_push (FStatic m) (tr_push (FContext d) (tr_push (FErrno e) (w_tr w)))) w).
Proof. reflexivity. Qed.

(* ---------- file-system facts ---------- *)

Lemma fs_mkdir_err p f : fst (fs_mkdir p f) <> None -> snd (fs_mkdir p f) = f.
Proof.
  unfold fs_mkdir. destruct (lookup f p); [reflexivity|].
  destruct (parent_is_dir f p); [reflexivity|]. cbn. congruence.
Qed.

Lemma fs_mkdir_eexist p f : fst (fs_mkdir p f) = Some EEXIST -> lookup f p <> None.
Proof.
  unfold fs_mkdir. destruct (lookup f p); [discriminate|].
  unfold parent_is_dir. destruct (lookup f (dirname p)) as [[| |]|]; cbn; discriminate.
Qed.

Lemma fs_mkdir_exists p f : lookup f p <> None -> fs_mkdir p f = (Some EEXIST, f).
Proof. unfold fs_mkdir. destruct (lookup f p); [reflexivity | congruence]. Qed.

Lemma fs_mkdir_ok_lookup p f : fst (fs_mkdir p f) = None -> lookup (snd (fs_mkdir p f)) p = Some NDir.
Proof.
  unfold fs_mkdir. destruct (lookup f p) eqn:E; [discriminate|].
  destruct (parent_is_dir f p); [discriminate|]. intros _. cbn [snd].
  apply lookup_add_dent_same. exact E.
Qed.

Lemma fs_rmdir_err p f : fst (fs_rmdir p f) <> None -> snd (fs_rmdir p f) = f.
Proof.
  unfold fs_rmdir. destruct (lookup f p) as [[| |]|]; try reflexivity.
  destruct (children f p); [cbn; congruence | reflexivity].
Qed.

(* "mkdir -p" as a function *)
Definition mkpar (ds : list str) (f : fs) : fs :=
  fold_left (fun g d => snd (fs_mkdir d g)) ds f.

Lemma mkpar_cons d ds f : mkpar (d :: ds) f = mkpar ds (snd (fs_mkdir d f)).
Proof. reflexivity. Qed.

Lemma mkpar_exist ds : forall f, (forall d, In d ds -> lookup f d <> None) -> mkpar ds f = f.
Proof.
  induction ds as [|d ds IH]; intros f H; [reflexivity|].
  rewrite mkpar_cons, (fs_mkdir_exists d f); [|apply H; left; reflexivity]. cbn [snd].
  apply IH. intros d' Hin. apply H. right. exact Hin.
Qed.

(* ---------- mkdir_all, create_parents ---------- *)

Definition cca (w : world) : Prop :=
  exists rest, t_frames (w_tr w) = FStatic M_cannot_create_ancestor :: rest.

Lemma cca_oth w : cca w -> oth w.
Proof. intros [rest E]. exists (FStatic M_cannot_create_ancestor), rest. split; [exact E | exact I]. Qed.

Lemma mkdir_all_h o (Ho : honest o) ds : forall w, ok_fr w ->
  FP.post (fun _ w' => (ok_fr w' /\ w_fs w' = mkpar ds (w_fs w)) \/ cca w') (fun _ => True)
          (mkdir_all ds o w).
Proof.
  induction ds as [|d ds IH]; intros w Hok; cbn [mkdir_all].
  - apply FP.post_ret. left. split; [exact Hok | reflexivity].
  - apply FP.post_bind. unfold k_mkdir.
    assert (Hthrow : forall e w1,
              FP.post (fun _ w' => (ok_fr w' /\ w_fs w' = mkpar (d :: ds) (w_fs w)) \/ cca w') (fun _ => True)
                      ((throw_errno e;; throw_context d;; throw_static M_cannot_create_ancestor) o w1)).
    { intros e w1. rewrite throw3_run. cbn [FP.post]. right. eexists. reflexivity. }
    apply post_sys_unit_h; [exact Ho | exact I | |].
    + intros e [_ [_ [_ He]]]. destruct e; try congruence; apply Hthrow.
    + intros e f' E.
      assert (Hgo : match e with None | Some EEXIST => True | _ => False end ->
                FP.post (fun _ w' => (ok_fr w' /\ w_fs w' = mkpar (d :: ds) (w_fs w)) \/ cca w') (fun _ => True)
                        (mkdir_all ds o (after_call (CMkdir d) (err_ret e) f' w))).
      { intros _. eapply FP.post_mono; [apply IH; exact Hok | | auto].
        intros ? w' [[H1 H2]|H]; [left|right; exact H]. split; [exact H1|].
        rewrite H2. cbn [after_call w_fs]. rewrite mkpar_cons, E. reflexivity. }
      destruct e as [e|]; [destruct e|]; first [apply Hgo; exact I | apply Hthrow].
Qed.

Lemma create_parents_h o (Ho : honest o) p w : ok_fr w ->
  FP.post (fun _ w' => (ok_fr w' /\ w_fs w' = mkpar (parents_of p) (w_fs w)) \/ cca w') (fun _ => True)
          (create_parents p o w).
Proof.
  intros Hok. unfold create_parents, when_ok. rewrite FP.bind_is_ok, (ok_fr_tr_ok _ Hok).
  apply mkdir_all_h; assumption.
Qed.

(* ---------- the loop over the walk ---------- *)

Section Tree.
Variables (U D P : str) (rv : bool).
Variable o : oracle.
Hypothesis Ho : honest o.
Variable AF : world -> Prop.
Hypothesis AF_stable : stable AF.
Hypothesis Hacc : forall w filt e, o (w_n w) = FFail e ->
  AF (after_call (CAccess filt) (RFault e) (w_fs w) w).
Local Notation post_AF := (post_E AF).
Local Notation AF_after := (E_after AF AF_stable).

Definition fe (w : world) : Prop := exists e, t_frames (w_tr w) = [FErrno e].

Lemma fe_oth w : fe w -> oth w.
Proof. intros [e E]. exists (FErrno e), []. split; [exact E | exact I]. Qed.

(* a call whose failure is thrown *)
Lemma must_h c op w : ok_fr w ->
  FP.post (fun _ w' => (ok_fr w' /\ SP.opt (op (w_fs w)) = Some (w_fs w')) \/ fe w') (fun _ => True)
          ((do r <- sys_unit c op; match r with Some e => throw_errno e | None => ret_ tt end) o w).
Proof.
  intros Hok. apply FP.post_bind. apply post_sys_unit_h; [exact Ho | exact I | |].
  - intros e _. rewrite throw_errno_run. cbn [FP.post]. right. exists e.
    cbn [Hoare.upd_tr w_tr tr_push t_frames after_call]. rewrite Hok. reflexivity.
  - intros e f' E. destruct e as [e|].
    + rewrite throw_errno_run. cbn [FP.post]. right. exists e.
      cbn [Hoare.upd_tr w_tr tr_push t_frames after_call]. rewrite Hok. reflexivity.
    + apply FP.post_ret. left. split; [exact Hok|]. unfold SP.opt. rewrite E. reflexivity.
Qed.

Lemma lm_must c op : lm AF (do r <- sys_unit c op; match r with Some e => throw_errno e | None => ret_ tt end).
Proof.
  apply (lm_bind AF); [apply (lm_sys_unit AF AF_stable)|].
  intros [e|]; [apply (lm_mod_tr AF AF_stable) | apply (lm_ret AF)].
Qed.

Definition ent_out (f : fs) (e : str * wkind) (w' : world) : Prop :=
  (ok_fr w' /\ SP.pstep U D P f e = Some (w_fs w')) \/ fe w' \/ AF w'.

Lemma entry_h p k w : ok_fr w ->
  FP.post (fun _ w' => ent_out (w_fs w) (p, k) w') (fun _ => True) (SP.entry_prog U D P p k o w).
Proof.
  intros Hok. unfold SP.entry_prog, ent_out, SP.pstep. cbn [fst snd].
  set (rel := skipn (S (length U)) p).
  set (filt := P ++ ch_slash :: rel).
  assert (Hfail : forall (m : M unit) e, o (w_n w) = FFail e -> lm AF m ->
            FP.post (fun _ w' => (ok_fr w' /\
                        match k with
                        | WD => if fs_exists filt (w_fs w) then SP.opt (fs_mkdir (join D rel) (w_fs w)) else Some (w_fs w)
                        | WDP => if fs_exists filt (w_fs w) then Some (w_fs w) else SP.opt (fs_rmdir p (w_fs w))
                        | WF => if fs_exists filt (w_fs w) then SP.opt (fs_link p (join D rel) (w_fs w))
                                else SP.opt (fs_unlink p (w_fs w))
                        end = Some (w_fs w')) \/ fe w' \/ AF w') (fun _ => True)
                    (m o (after_call (CAccess filt) (RFault e) (w_fs w) w))).
  { intros m e Eo Hm. apply post_AF; [exact Hm | | intros ? w' H; right; right; exact H].
    apply Hacc. exact Eo. }
  assert (Hmust : forall c op w1, w_fs w1 = w_fs w -> ok_fr w1 -> forall X,
            X = SP.opt (op (w_fs w)) ->
            FP.post (fun _ w' => (ok_fr w' /\ X = Some (w_fs w')) \/ fe w' \/ AF w') (fun _ => True)
                    ((do r <- sys_unit c op; match r with Some e => throw_errno e | None => ret_ tt end) o w1)).
  { intros c op w1 Ef Hok1 X ->. eapply FP.post_mono; [apply (must_h c op w1 Hok1) | | auto].
    intros ? w' [[H1 H2]|H]; [left | right; left; exact H]. split; [exact H1|]. rewrite <- Ef. exact H2. }
  destruct k; apply FP.post_bind; unfold k_access; apply post_sys_h; try exact Ho; try exact I.
  - (* WD, the probe failed *)
    intros e Eo _. cbv iota. apply (Hfail (ret_ tt) e Eo). apply (lm_ret AF).
  - intros r a f' E. unfold fs_exists in *. fold (fs_exists filt (w_fs w)) in *.
    destruct (fs_exists filt (w_fs w)); inversion E; subst; cbv iota.
    + unfold k_mkdirat. apply Hmust; [reflexivity | exact Hok | reflexivity].
    + apply FP.post_ret. left. split; [exact Hok | reflexivity].
  - (* WDP *)
    intros e Eo _. cbv iota. apply (Hfail _ e Eo). apply lm_must.
  - intros r a f' E.
    destruct (fs_exists filt (w_fs w)); inversion E; subst; cbv iota.
    + apply FP.post_ret. left. split; [exact Hok | reflexivity].
    + unfold k_rmdir. apply Hmust; [reflexivity | exact Hok | reflexivity].
  - (* WF *)
    intros e Eo _. cbv iota. apply (Hfail _ e Eo). apply lm_must.
  - intros r a f' E.
    destruct (fs_exists filt (w_fs w)); inversion E; subst; cbv iota.
    + unfold k_linkat. apply Hmust; [reflexivity | exact Hok | reflexivity].
    + unfold k_unlink. apply Hmust; [reflexivity | exact Hok | reflexivity].
Qed.

Lemma tree_loop_h ents : forall w, ok_fr w ->
  FP.post (fun _ w' => (ok_fr w' /\ SP.psteps U D P ents (w_fs w) = Some (w_fs w')) \/ fe w' \/ AF w')
          (fun _ => True) (tree_loop ents (length U) D P o w).
Proof.
  induction ents as [|[p k] ents IH]; intros w Hok.
  - apply FP.post_ret. left. split; [exact Hok | reflexivity].
  - rewrite SP.tree_loop_cons, FP.bind_is_ok, (ok_fr_tr_ok _ Hok). cbn [negb].
    apply FP.post_bind. eapply FP.post_mono; [apply (entry_h p k w Hok) | | auto].
    intros [] w1 [[Hok1 Est]|[Hfe|Haf]]; cbv beta.
    + eapply FP.post_mono; [apply (IH w1 Hok1) | | auto].
      intros ? w' [[H1 H2]|H]; [left | right; exact H]. split; [exact H1|].
      cbn [SP.psteps]. rewrite Est. exact H2.
    + (* an error is in the trace: the loop stops at its next test *)
      destruct ents as [|[p' k'] ents'].
      * apply FP.post_ret. right. left. exact Hfe.
      * rewrite SP.tree_loop_cons, FP.bind_is_ok, (oth_not_ok _ (fe_oth _ Hfe)). cbn [negb].
        apply FP.post_ret. right. left. exact Hfe.
    + apply post_AF; [apply (lm_tree_loop AF AF_stable) | exact Haf | intros ? w' H; right; right; exact H].
Qed.

End Tree.

(* ---------- clean_up when the destination exists: nothing is removed ---------- *)

Lemma rmdir_up_stuck o d ds w :
  fst (fs_rmdir d (w_fs w)) <> None ->
  FP.post (fun _ w' => w_fs w' = w_fs w) (fun _ => True) (rmdir_up (d :: ds) o w).
Proof.
  intros Hne. cbn [rmdir_up]. apply FP.post_bind. unfold k_rmdir.
  apply FP.post_sys_unit; [exact I| |].
  - intros e. destruct e; cbn [FP.post]; try reflexivity; rewrite throw3_run; reflexivity.
  - intros e f' E. rewrite E in Hne. cbn [fst] in Hne.
    assert (Ef : f' = w_fs w).
    { pose proof (fs_rmdir_err d (w_fs w)) as H. rewrite E in H. cbn [fst snd] in H. apply H. exact Hne. }
    destruct e as [e|]; [|congruence].
    destruct e; cbn [FP.post]; try exact Ef; rewrite throw3_run; exact Ef.
Qed.

Lemma clean_up_exists o D w :
  (exists restD, D = ch_slash :: restD) -> lookup (w_fs w) D <> None ->
  FP.post (fun _ w' => w_fs w' = w_fs w /\ w_tr w' = w_tr w) (fun _ => True) (clean_up D o w).
Proof.
  intros [restD HD] Hex. unfold clean_up. rewrite FP.bind_get_tr, FP.bind_set_tr.
  apply FP.post_bind. unfold remove_empty_parents, when_ok. rewrite FP.bind_is_ok.
  cbn [Hoare.upd_tr w_tr]. change (tr_ok (tr_try tr_empty)) with true. cbv iota.
  set (w1 := Hoare.upd_tr (tr_try tr_empty) w).
  assert (Hfin : forall w2, w_fs w2 = w_fs w -> FP.post (fun _ w' => w_fs w' = w_fs w /\ w_tr w' = w_tr w)
                                (fun _ => True) (set_tr (w_tr w) o w2)).
  { intros w2 E. cbn. split; [exact E | reflexivity]. }
  destruct (rev (parents_of D)) as [|p l] eqn:Erev.
  - apply FP.post_ret. apply Hfin. reflexivity.
  - assert (Hpar : parents_of D = rev l ++ [p]).
    { rewrite <- (rev_involutive (parents_of D)), Erev. reflexivity. }
    assert (Hp : p = dirname D).
    { destruct (parents_of_chain restD) as [_ Hlast]. rewrite <- HD in Hlast.
      rewrite Hlast, Hpar. symmetry. apply SP.last_or_snoc. }
    assert (HDr : D <> root_path).
    { intros E. rewrite E in Hpar. destruct (rev l); discriminate. }
    eapply FP.post_mono; [apply (rmdir_up_stuck o p l w1) | | auto].
    + change (w_fs w1) with (w_fs w). unfold fs_rmdir.
      destruct (lookup (w_fs w) p) as [[| |]|]; try discriminate.
      destruct (children_intro (w_fs w) p D HDr (eq_sym Hp) Hex) as [v Hv].
      destruct (children (w_fs w) p); [destruct Hv | discriminate].
    + intros ? w2 E. apply Hfin. exact E.
Qed.

(* clean_up in general: the trace comes back *)
Lemma clean_up_tr o p w :
  FP.post (fun _ w' => w_tr w' = w_tr w) (fun _ => True) (clean_up p o w).
Proof.
  eapply FP.post_mono; [apply (FP.clean_up_spec_all [] p o w) | | auto].
  intros ? w' [l [_ [_ E]]]. exact E.
Qed.

(* ---------- sync_shallow_tree ---------- *)

Section Sst.
Variables (U D P : str) (rv : bool).
Variable o : oracle.
Hypothesis Ho : honest o.
Variable AF : world -> Prop.
Hypothesis AF_stable : stable AF.
Hypothesis Hacc : forall w filt e, o (w_n w) = FFail e ->
  AF (after_call (CAccess filt) (RFault e) (w_fs w) w).
Local Notation post_AF := (post_E AF).
Local Notation AF_after := (E_after AF AF_stable).

Definition sst_fs (f0 : fs) : option fs :=
  let f1 := mkpar (parents_of D) f0 in
  match fst (fs_mkdir D f1) with
  | None => let f2 := snd (fs_mkdir D f1) in SP.psteps U D P (fs_walk rv f2 U) f2
  | Some _ => None
  end.

Definition sst_out (f0 : fs) (w : world) : Prop :=
  (ok_fr w /\ sst_fs f0 = Some (w_fs w)) \/
  (t_frames (w_tr w) = [FStatic M_dst_exists] /\
   lookup (mkpar (parents_of D) f0) D <> None /\ w_fs w = mkpar (parents_of D) f0) \/
  oth w \/ AF w.

Hypothesis HDabs : exists restD, D = ch_slash :: restD.

(* the program, cut in three *)
Definition sst_tail : M unit :=
  k_close;; (do b3 <- is_ok; if negb b3 then clean_up D else ret_ tt).

Definition sst_walk : M unit :=
  do w <- k_fts rv U;
  (match w with
   | inr e =>
       match e with
       | ENOENT => throw_static M_src_missing
       | EACCES => throw_static M_src_denied
       | _ => throw_errno e
       end
   | inl ents => tree_loop ents (length U) D P
   end;; sst_tail).

Definition sst_rest : M unit :=
  do b1 <- is_ok;
  do opened <-
    (if b1 then
       do d <- k_open_read D;
       match d with inr e => throw_errno e;; ret_ false | inl _ => ret_ true end
     else ret_ false);
  do b2 <- is_ok;
  if negb b2 then
    (if opened then k_close;; ret_ tt else ret_ tt);;
    clean_up D
  else sst_walk.

Definition sst_mk : M unit :=
  do r <- k_mkdir D;
  match r with
  | None => ret_ tt
  | Some EEXIST => throw_static M_dst_exists
  | Some e => throw_errno e
  end.

Lemma sst_unfold :
  sync_shallow_tree rv D U P =
  (create_parents D;; (do b <- is_ok; (if b then sst_mk else ret_ tt);; sst_rest)).
Proof. reflexivity. Qed.

Lemma clean_oth w f0 : oth w -> FP.post (fun _ => sst_out f0) (fun _ => True) (clean_up D o w).
Proof.
  intros Hoth. eapply FP.post_mono; [apply clean_up_tr | | auto].
  intros ? w2 E2. right. right. left. unfold oth in *. rewrite E2. exact Hoth.
Qed.

Lemma rest_oth w f0 : oth w -> FP.post (fun _ => sst_out f0) (fun _ => True) (sst_rest o w).
Proof.
  intros Hoth. unfold sst_rest.
  rewrite FP.bind_is_ok, (oth_not_ok _ Hoth), FP.bind_ret, FP.bind_is_ok, (oth_not_ok _ Hoth).
  cbn [negb]. rewrite FP.bind_ret. apply clean_oth. exact Hoth.
Qed.

Lemma rest_exists w f0 :
  t_frames (w_tr w) = [FStatic M_dst_exists] ->
  w_fs w = mkpar (parents_of D) f0 -> lookup (mkpar (parents_of D) f0) D <> None ->
  FP.post (fun _ => sst_out f0) (fun _ => True) (sst_rest o w).
Proof.
  intros T F Hex. unfold sst_rest.
  assert (N : tr_ok (w_tr w) = false) by (unfold tr_ok; rewrite T; reflexivity).
  rewrite FP.bind_is_ok, N, FP.bind_ret, FP.bind_is_ok, N. cbn [negb]. rewrite FP.bind_ret.
  eapply FP.post_mono; [apply (clean_up_exists o D w HDabs) | | auto].
  - rewrite F. exact Hex.
  - intros ? w4 [F4 T4]. right. left. rewrite T4, F4. auto.
Qed.

Lemma tail_h w f0 :
  (ok_fr w /\ sst_fs f0 = Some (w_fs w)) \/ oth w \/ AF w ->
  FP.post (fun _ => sst_out f0) (fun _ => True) (sst_tail o w).
Proof.
  intros H5. unfold sst_tail. apply FP.post_bind. unfold k_close.
  assert (Hgo : forall r, FP.post (fun _ => sst_out f0) (fun _ => True)
            ((do b3 <- is_ok; if negb b3 then clean_up D else ret_ tt) o (after_call CClose r (w_fs w) w))).
  { intros r. set (w6 := after_call _ _ _ _). rewrite FP.bind_is_ok.
    destruct H5 as [[H5a H5b]|[H5|H5]].
    + rewrite (ok_fr_tr_ok w6 H5a). cbn [negb]. apply FP.post_ret. left. split; [exact H5a | exact H5b].
    + assert (H6 : oth w6) by exact H5. rewrite (oth_not_ok _ H6). cbn [negb]. apply clean_oth. exact H6.
    + apply post_AF; [|apply AF_after; exact H5 | intros ? w7 H7; right; right; right; exact H7].
      destruct (negb (tr_ok (w_tr w6))); [apply (lm_clean_up AF AF_stable) | apply (lm_ret AF)]. }
  apply FP.post_sys_unit; [exact I| |].
  - intros e. apply Hgo.
  - intros e f' E. inversion E; subst e f'. apply Hgo.
Qed.

Lemma walk_h w f0 f2 :
  ok_fr w -> w_fs w = f2 -> sst_fs f0 = SP.psteps U D P (fs_walk rv f2 U) f2 ->
  FP.post (fun _ => sst_out f0) (fun _ => True) (sst_walk o w).
Proof.
  intros Hok F Hs. unfold sst_walk. apply FP.post_bind. unfold k_fts.
  apply post_sys_h; [exact Ho | exact I | |].
  - intros e _ [He1 [_ [He3 _]]]. set (w4 := after_call _ _ _ _).
    assert (Hoth : oth (Hoare.upd_tr (tr_push (FErrno e) (w_tr w4)) w4)).
    { exists (FErrno e), (t_frames (w_tr w4)). split; [reflexivity | exact I]. }
    destruct e; try congruence; apply FP.post_bind; rewrite throw_errno_run; cbn [FP.post];
      apply tail_h; right; left; exact Hoth.
  - intros r a f4 E4. inversion E4; subst r a f4. clear E4.
    set (w4 := after_call _ _ _ _). apply FP.post_bind.
    eapply FP.post_mono; [apply (tree_loop_h U D P o Ho AF AF_stable Hacc (fs_walk rv (w_fs w) U) w4 Hok) | | auto].
    intros [] w5 H5. cbv beta. apply tail_h.
    destruct H5 as [[H5a H5b]|[H5|H5]]; [left | right; left; apply fe_oth; exact H5 | right; right; exact H5].
    split; [exact H5a|]. rewrite Hs, <- F. exact H5b.
Qed.

Lemma rest_ok w f0 f2 :
  ok_fr w -> w_fs w = f2 -> lookup f2 D = Some NDir ->
  sst_fs f0 = SP.psteps U D P (fs_walk rv f2 U) f2 ->
  FP.post (fun _ => sst_out f0) (fun _ => True) (sst_rest o w).
Proof.
  intros Hok F HlD Hs. unfold sst_rest. rewrite FP.bind_is_ok, (ok_fr_tr_ok _ Hok).
  apply FP.post_bind. apply FP.post_bind. unfold k_open_read, k_open_gen.
  apply post_sys_h; [exact Ho | exact I | |].
  - intros e _ _. set (w3 := after_call _ _ _ _).
    assert (Hoth : oth (Hoare.upd_tr (tr_push (FErrno e) (w_tr w3)) w3)).
    { exists (FErrno e), (t_frames (w_tr w3)). split; [reflexivity | exact I]. }
    change ((throw_errno e;; ret_ false) o w3) with (Some false, Hoare.upd_tr (tr_push (FErrno e) (w_tr w3)) w3).
    cbn [FP.post]. rewrite FP.bind_is_ok, (oth_not_ok _ Hoth). cbn [negb]. rewrite FP.bind_ret.
    apply clean_oth. exact Hoth.
  - intros r a f3 E3. unfold fs_open_read in E3. rewrite F, HlD in E3. inversion E3; subst r a f3. clear E3.
    apply FP.post_ret. cbv beta. set (w3 := after_call _ _ _ _).
    assert (Hok3 : ok_fr w3) by exact Hok.
    rewrite FP.bind_is_ok, (ok_fr_tr_ok _ Hok3). cbn [negb].
    apply (walk_h w3 f0 f2); [exact Hok3 | reflexivity | exact Hs].
Qed.

Theorem sst_h w : ok_fr w ->
  FP.post (fun _ => sst_out (w_fs w)) (fun _ => True) (sync_shallow_tree rv D U P o w).
Proof.
  intros Hok. set (f0 := w_fs w). set (f1 := mkpar (parents_of D) f0).
  rewrite sst_unfold.
  apply FP.post_bind. eapply FP.post_mono; [apply (create_parents_h o Ho D w Hok) | | auto].
  intros [] w1 H1. cbv beta. rewrite FP.bind_is_ok.
  destruct H1 as [[Hok1 Ef1]|Hcca].
  2:{ pose proof (cca_oth _ Hcca) as Hoth. rewrite (oth_not_ok _ Hoth), FP.bind_ret.
      apply rest_oth. exact Hoth. }
  fold f0 in Ef1. fold f1 in Ef1. rewrite (ok_fr_tr_ok _ Hok1).
  apply FP.post_bind. unfold sst_mk. apply FP.post_bind. unfold k_mkdir.
  assert (Hother : forall e w2, ok_fr w2 -> e <> EEXIST ->
            FP.post (fun _ w3 => FP.post (fun _ => sst_out f0) (fun _ => True) (sst_rest o w3)) (fun _ => True)
              (match Some e with
               | None => ret_ tt
               | Some EEXIST => throw_static M_dst_exists
               | Some e => throw_errno e
               end o w2)).
  { intros e w2 Hok2 Hne.
    assert (Hoth : oth (Hoare.upd_tr (tr_push (FErrno e) (w_tr w2)) w2)).
    { exists (FErrno e), (t_frames (w_tr w2)). split; [reflexivity | exact I]. }
    destruct e; try congruence; rewrite throw_errno_run; cbn [FP.post]; apply rest_oth; exact Hoth. }
  apply post_sys_unit_h; [exact Ho | exact I | |].
  { intros e [_ [_ [_ He]]]. apply Hother; [exact Hok1 | exact He]. }
  intros e f2 E. rewrite Ef1 in E.
  destruct e as [e|].
  { destruct (errno_eq_dec e EEXIST) as [->|Hne]; [|apply Hother; [exact Hok1 | exact Hne]].
    (* the destination exists *)
    assert (Ef2 : f2 = f1).
    { pose proof (fs_mkdir_err D f1) as H. rewrite E in H. cbn [fst snd] in H. apply H. discriminate. }
    assert (Hex : lookup f1 D <> None).
    { apply fs_mkdir_eexist. rewrite E. reflexivity. }
    rewrite throw_static_run. cbn [FP.post].
    apply rest_exists; [|cbn [Hoare.upd_tr w_fs after_call]; exact Ef2 | exact Hex].
    cbn [Hoare.upd_tr w_tr tr_push t_frames after_call]. rewrite Hok1. reflexivity. }
  (* the destination is new *)
  assert (Emk : fst (fs_mkdir D f1) = None) by (rewrite E; reflexivity).
  assert (Ef2 : f2 = snd (fs_mkdir D f1)) by (rewrite E; reflexivity).
  apply FP.post_ret. cbv beta.
  apply (rest_ok _ f0 f2); [exact Hok1 | reflexivity | |].
  - rewrite Ef2. apply fs_mkdir_ok_lookup. exact Emk.
  - unfold sst_fs. fold f1. rewrite Emk. cbv zeta. rewrite <- Ef2. reflexivity.
Qed.

End Sst.

Print Assumptions sst_h.
