(* C03 at the level of the WORLD: what is on disk after a timeout pass that was
   interrupted at ANY point.  The final world is `snd (handle_timeout rev h o w)`
   whether the pass returned, reported an error, or the process died
   (`fst res = None`): the oracle o is arbitrary - a crash before any call, any
   failing call with any errno, short transfers.  CrashProofs.v (+ CrashFrame,
   CrashLoad, CrashQueue, CrashCopy).
   Definitions: QRel q f ents = the queue directory in f together with the
   in-memory queue q refines the reference queue ents (QueueProofs); qclean d f =
   the queue directory holds nothing but numbered links; preserved / SI = no file
   of the store or project store changes or disappears (StoreProofs, C04);
   honest o = the oracle never answers ENOENT / ENOTDIR / EACCES / EEXIST to a
   call (those errnos are the expected conditions "source gone", "unreadable",
   "name taken", which the handler legitimately treats as such) and never moves
   0 bytes in a transfer; crashes at any index, every other errno at any call
   and arbitrarily short non-zero transfers are honest. *)
From K Require Import Str Dec Trace Fs World Progs Elf Linq LinqSpec LinqProofs Sieve Handler Hoare
     Confine Confine2 SyncProofs AbandonProofs StoreFs StoreLogic StoreProgs StoreProofs DecProofs
     QueueProofs CrashFrame CrashLoad CrashQueue CrashCopy CrashProofs.

(* (1) the queue directory still decodes and the invariant holds again,
   (2) it holds a SUFFIX of the original entries, under their original names,
   (4) no stored file changed;  for every oracle.  When the pass returned, q' is
   the queue of the returned handler, so the theorem chains over passes. *)
Theorem C03_world_queue_and_store :
  forall (o : oracle) (w : world) (rev : bool) (h : handler) (ents : list qent),
  disjoint_locs (h_cfg h) ->
  qdir_ok2 (h_cfg h) (q_dir (h_q h)) ->
  SI (h_cfg h) (h_journal h) (w_fs w) ->
  keys_nodup (w_fs w) ->
  qclean (q_dir (h_q h)) (w_fs w) ->
  QRel (h_q h) (w_fs w) ents ->
  let res := handle_timeout rev h o w in
  let f' := w_fs (snd res) in
  exists (k : nat) (q' : qmem),
    k <= length ents /\
    q_dir q' = q_dir (h_q h) /\
    keys_nodup f' /\ qclean (q_dir (h_q h)) f' /\ QRel q' f' (skipn k ents) /\
    (k < length ents -> q_head q' = (q_head (h_q h) + N.of_nat k)%N) /\
    preserved (h_cfg h) (w_fs w) f' /\ SI (h_cfg h) (h_journal h) f' /\
    (forall r h', fst res = Some (r, h') ->
       h_q h' = q' /\ h_cfg h' = h_cfg h /\ h_journal h' = h_journal h).
Proof. exact timeout_crash_queue_store. Qed.
Print Assumptions C03_world_queue_and_store.

(* a restart after any such pass finds a loadable queue: load_linq succeeds and
   yields exactly that suffix *)
Theorem C03_world_restart_loads :
  forall (o : oracle) (w : world) (rev : bool) (h : handler) (ents : list qent)
         (o2 : oracle) (w2 : world) (deb : Z) (g : nat),
  disjoint_locs (h_cfg h) ->
  qdir_ok2 (h_cfg h) (q_dir (h_q h)) ->
  SI (h_cfg h) (h_journal h) (w_fs w) ->
  keys_nodup (w_fs w) ->
  qclean (q_dir (h_q h)) (w_fs w) ->
  QRel (h_q h) (w_fs w) ents ->
  Forall (fits g) ents ->
  benign o2 -> tr_ok (w_tr w2) = true ->
  w_fs w2 = w_fs (snd (handle_timeout rev h o w)) ->
  exists (k : nat) (q2 : qmem) (w2' : world),
    k <= length ents /\
    load_linq (q_dir (h_q h)) deb g o2 w2 = (Some (Some q2), w2') /\
    QRel q2 (w_fs w2') (skipn k ents) /\
    w_fs w2' = w_fs w2 /\ tr_ok (w_tr w2') = true.
Proof. exact timeout_crash_then_restart_loads. Qed.
Print Assumptions C03_world_restart_loads.

(* (3) pop only after the copy: if the link of the first entry (a file entry
   queued once, whose source is readable with bytes b) is gone from the final
   world, then the store holds a file whose bytes are b (from the remembered
   position on for a history path); every honest oracle *)
Theorem C03_world_pop_after_copy :
  forall (o : oracle) (w : world) (rev : bool) (h : handler)
         (p1 : str) (m1 : N) (t1 : Z) (rest : list qent) (i : nat) (b : str),
  honest o ->
  disjoint_locs (h_cfg h) ->
  qdir_ok2 (h_cfg h) (q_dir (h_q h)) ->
  SI (h_cfg h) (h_journal h) (w_fs w) ->
  keys_nodup (w_fs w) ->
  qclean (q_dir (h_q h)) (w_fs w) ->
  QRel (h_q h) (w_fs w) ((p1, m1, t1) :: rest) ->
  count_paths p1 ((p1, m1, t1) :: rest) = 1 ->
  N.odd m1 = false ->
  lookup (w_fs w) p1 = Some (NFile i) ->
  get_file (w_fs w) i = mkFile b true ->
  let res := handle_timeout rev h o w in
  let f' := w_fs (snd res) in
  lookup f' (join (q_dir (h_q h)) (dec (q_head (h_q h)))) = None ->
  exists (off : nat) (s : str) (j : nat),
    (N.testbit m1 1 = false -> off = 0) /\
    StoreFs.under (c_store_root (h_cfg h)) s /\
    lookup f' s = Some (NFile j) /\
    f_bytes (get_file f' j) = skipn off b.
Proof. exact timeout_crash_pop_after_copy. Qed.
Print Assumptions C03_world_pop_after_copy.

(* non-vacuity: the hypotheses hold of a concrete world with a plain and a
   history entry; a crash before each of the 36 calls of its pass, EIO at every
   call, and EIO at k followed by a crash at j (37 x 40 pairs) are checked by
   evaluation against the same invariant.  Without honesty (3) is refuted by
   witnesses kept in CrashProofs (injected EEXIST / ENOENT / ENOTDIR / a 0-byte
   transfer). *)
Example C03_world_hyps_hold := CrashExample.hyps_hold.
Example C03_world_crash_at_every_call := CrashExample.crash_at_every_call.
Example C03_world_fail_at_every_call := CrashExample.fail_at_every_call.
