(* C11 / C03, world level: a project snapshot directory that EXISTS is never
   touched again by the timeout pass, under EVERY oracle (failing calls, short
   transfers, a crash before any call).

   For a snapshot directory  Dd = <project store>/<pname>/<tail>  (pname and
   tail without '/') and any assignment S of nodes to the relative paths below
   it, the predicate

      SnapAt f  :=  lookup f Dd = Some NDir /\ forall r, lookup f (Dd/r) = S r

   is kept by handle_timeout_loop as postcondition and as crash condition.

   The proof instantiates the frame pass of CrashFrame.v with d := Dd and
   X := SnapAt.  Everything the pass writes is [away Dd], with one exception:
   a later project head whose destination is Dd itself.  There
   sync_shallow_tree creates only proper ancestors of Dd, then mkdir(Dd)
   cannot succeed (a performed call answers EEXIST, an injected failure leaves
   the file system alone), an error is thrown in both cases, and the function
   leaves through clean_up (rmdir of proper ancestors only) without reaching
   the tree walk.  That the destination of a project head has the form
   <project store>/<name>/<version...> with slash-free components needs the
   check of the version string (existsb is_slash), tracked through the error
   trace. *)
From K Require Import Str Dec Trace Fs World Progs Elf Linq LinqSpec LinqProofs Sieve Handler Hoare
     Confine Confine2 SyncProofs AbandonProofs StoreFs StoreLogic StoreProgs StoreProofs DecProofs
     QueueProofs CrashFrame CrashLoad CrashQueue CrashCopy CrashProofs.
From Coq Require Import Lia.

(* ---------- strings ---------- *)

Lemma ns_cons_inv ch s : ns (ch :: s) -> is_slash ch = false /\ ns s.
Proof.
  unfold ns. cbn [forallb]. intros H. apply andb_true_iff in H. destruct H as [H1 H2].
  apply negb_true_iff in H1. auto.
Qed.

Lemma ns_no_slash a b : ns (a ++ ch_slash :: b) -> False.
Proof.
  induction a as [|ch a IH]; cbn [app]; intros H; apply ns_cons_inv in H; destruct H as [H1 H2].
  - change (is_slash ch_slash) with true in H1. discriminate H1.
  - exact (IH H2).
Qed.

(* the first component of a relative path is determined *)
Lemma ns_split a : forall b x y,
  ns a -> ns b -> a ++ ch_slash :: x = b ++ ch_slash :: y -> a = b /\ x = y.
Proof.
  induction a as [|ch a IH]; intros [|ch' b] x y Ha Hb E; cbn [app] in E.
  - injection E as E. auto.
  - injection E as E1 E2. subst ch'. apply ns_cons_inv in Hb. destruct Hb as [Hb _].
    change (is_slash ch_slash) with true in Hb. discriminate Hb.
  - injection E as E1 E2. subst ch. apply ns_cons_inv in Ha. destruct Ha as [Ha _].
    change (is_slash ch_slash) with true in Ha. discriminate Ha.
  - injection E as E1 E2. subst ch'.
    apply ns_cons_inv in Ha. apply ns_cons_inv in Hb.
    destruct (IH b x y (proj2 Ha) (proj2 Hb) E2) as [-> ->]. auto.
Qed.

(* a proper ancestor of a path is not inside it *)
Lemma ancestor_away a p : ancestor a p -> away p a.
Proof.
  intros [r E] Hin. apply (f_equal (@length ascii)) in E.
  rewrite app_length in E. cbn [length] in E.
  destruct Hin as [->|[r' ->]].
  - lia.
  - rewrite app_length in E. cbn [length] in E. lia.
Qed.

(* ---------- the check of the version string, through the error trace ---------- *)

Lemma htf_version_check {B} (P : fs -> Prop) (v : option str) (k : bool -> M B)
      (Q : B -> fs -> Prop) (C : fs -> Prop) :
  (forall b2, (b2 = true -> forall ver, v = Some ver -> ns ver) -> htf P (k b2) Q C) ->
  htf P (do bv <- is_ok;
         (match v, bv with
          | Some ver, true =>
              if existsb is_slash ver then throw_context ver;; throw_static M_version_slashes else ret_ tt
          | _, _ => ret_ tt
          end);;
         do b2 <- is_ok; k b2) Q C.
Proof.
  intros Hk. unfold htf.
  eapply ht_bind with (R := fun bv w => P (w_fs w) /\ bv = tr_ok (w_tr w)); [apply ht_is_ok; auto|intros bv].
  eapply ht_bind with
    (R := fun _ w => P (w_fs w) /\
            (tr_ok (w_tr w) = true -> forall ver, v = Some ver -> existsb is_slash ver = false)).
  { destruct v as [ver|]; [destruct bv; [destruct (existsb is_slash ver) eqn:Es|]|].
    - eapply ht_bind with (R := fun _ w => P (w_fs w) /\ tr_ok (w_tr w) = false).
      + unfold throw_context, throw. apply ht_mod_tr. intros w [H _]. split; [exact H | reflexivity].
      + intros ?. unfold throw_static, throw. apply ht_mod_tr. intros w [H _]. split; [exact H|].
        intros E. cbn in E. discriminate.
    - apply ht_ret. intros w [H _]. split; [exact H|]. intros _ ver' E. inversion E; subst. exact Es.
    - apply ht_ret. intros w [H Hb]. split; [exact H|]. intros E. congruence.
    - apply ht_ret. intros w [H _]. split; [exact H|]. intros _ ver' E. discriminate. }
  intros ?.
  eapply ht_bind with
    (R := fun b2 w => P (w_fs w) /\ (b2 = true -> forall ver, v = Some ver -> existsb is_slash ver = false)).
  { apply ht_is_ok. intros w [H1 H2]. auto. }
  intros b2.
  apply ht_pure_pre with (phi := b2 = true -> forall ver, v = Some ver -> ns ver).
  { intros w [_ H] E ver Ev. apply existsb_false_ns. exact (H E ver Ev). }
  intros Hphi. eapply ht_pre; [|apply (Hk b2 Hphi)]. intros w [H _]. exact H.
Qed.

(* ---------- the snapshot directory ---------- *)

Section SnapFrame.
Variables (c : config) (oj : option journal) (d : str).
Hypothesis D : disjoint_locs c.
Hypothesis Hd : qdir_ok2 c d.
Variables (pname tail : str).
Hypothesis Hpn : ns pname.
Hypothesis Htl : ns tail.

Local Notation PS := (c_project_store_root c).
(* <project store>/<name>/<version...> *)
Local Notation Dd := (c_project_store_root c ++ ch_slash :: pname ++ ch_slash :: tail).

(* ----- paths ----- *)

Lemma inside_Dd_PS p : inside Dd p -> inside PS p.
Proof.
  intros [->|[r ->]]; right.
  - eexists. reflexivity.
  - exists (pname ++ ch_slash :: tail ++ ch_slash :: r).
    rewrite <- app_assoc. cbn [app]. rewrite <- app_assoc. reflexivity.
Qed.

(* everything inside a location that does not nest with the project store *)
Lemma aw_loc r p : nn PS r -> inside r p -> away Dd p.
Proof. intros Hn Hr Hin. exact (nn_away PS r p Hn Hr (inside_Dd_PS p Hin)). Qed.

Lemma nn_ps_store : nn PS (c_store_root c).
Proof.
  destruct D as [PW _]. unfold cfg_locs in PW. cbn [pairwise app] in PW.
  destruct PW as [H _]. rewrite Forall_forall in H. apply nn_sym. apply H. cbn. tauto.
Qed.
Lemma nn_ps_unst : nn PS (c_unstable_root c).
Proof. apply dl_pstore_unst. exact D. Qed.
Lemma nn_ps_off : nn PS (c_offset_root c).
Proof. apply dl_pstore_off. exact D. Qed.
Lemma nn_ps_d : nn PS d.
Proof. destruct Hd as [[_ [_ H]] _]. apply nn_sym. exact H. Qed.

Lemma d_ne_root : d <> root_path.
Proof. destruct Hd as [[H _] _]. exact H. Qed.

Lemma aw_qentry name : away Dd (join d name).
Proof.
  rewrite (join_ne _ _ d_ne_root). apply (aw_loc d); [exact nn_ps_d|]. right. exists name. reflexivity.
Qed.

(* destinations of project heads: <project store>/<name>/<version...> *)
Definition dst_ok (p : str) : Prop :=
  exists pn t2, ns pn /\ ns t2 /\ p = PS ++ ch_slash :: pn ++ ch_slash :: t2.

Lemma dst_ne_root p : dst_ok p -> p <> root_path.
Proof.
  intros [pn [t2 [_ [_ ->]]]] E. apply (f_equal (@length ascii)) in E.
  rewrite !app_length in E. cbn [length] in E. rewrite !app_length in E. cbn [length root_path] in E. lia.
Qed.

(* such a destination is Dd itself, or it and everything below it is outside Dd *)
Lemma dst_cases p :
  dst_ok p -> p = Dd \/ (away Dd p /\ forall rel, away Dd (p ++ ch_slash :: rel)).
Proof.
  intros [pn [t2 [Hn [Ht Ep]]]].
  destruct (str_eqb_spec p Dd) as [E|Hne]; [left; exact E|right].
  subst p. split.
  - intros [E|[r E]]; [exact (Hne E)|].
    rewrite <- app_assoc in E. apply app_inv_head in E. cbn [app] in E. injection E as E.
    rewrite <- app_assoc in E. cbn [app] in E.
    destruct (ns_split _ _ _ _ Hn Hpn E) as [_ E2]. subst t2. exact (ns_no_slash _ _ Ht).
  - intros rel [E|[r E]].
    + rewrite <- app_assoc in E. apply app_inv_head in E. cbn [app] in E. injection E as E.
      rewrite <- app_assoc in E. cbn [app] in E.
      destruct (ns_split _ _ _ _ Hn Hpn E) as [_ E2]. rewrite <- E2 in Htl. exact (ns_no_slash _ _ Htl).
    + rewrite <- !app_assoc in E. apply app_inv_head in E. cbn [app] in E. injection E as E.
      rewrite <- !app_assoc in E. cbn [app] in E.
      destruct (ns_split _ _ _ _ Hn Hpn E) as [E1 E2].
      destruct (ns_split _ _ _ _ Ht Htl E2) as [E3 _]. apply Hne. subst pn t2. reflexivity.
Qed.

(* store paths of project heads *)
Definition spP (sp : store_path) : Prop :=
  exists pn v, ns pn /\ ns v /\ sp_base sp = PS ++ ch_slash :: pn ++ ch_slash :: v /\ ns (sp_ext sp).

Lemma spP_increment sp : spP sp -> spP (increment sp).
Proof. intros [pn [v H]]. exists pn, v. exact H. Qed.

Lemma spP_create path version :
  ns version -> spP (create_store_path PS (basename path) version).
Proof.
  intros Hv. exists (basename path), version. split; [apply basename_ns|]. split; [exact Hv|].
  split; [reflexivity|]. apply extension_ns.
Qed.

Lemma spP_current sp : spP sp -> dst_ok (current_path sp).
Proof.
  intros [pn [v [Hn [Hv [E Hx]]]]]. exists pn. unfold current_path. rewrite E.
  destruct (sp_dups sp =? 0)%N.
  - exists (v ++ sp_ext sp). split; [exact Hn|]. split; [apply ns_app; assumption|].
    rewrite <- app_assoc. cbn [app]. rewrite <- app_assoc. reflexivity.
  - exists (v ++ ch_dash :: dec (sp_dups sp) ++ sp_ext sp). split; [exact Hn|]. split.
    + apply ns_app; [exact Hv|]. unfold ns. cbn [forallb]. rewrite ch_dash_ns. cbn [negb andb].
      apply ns_app; [|exact Hx]. apply digits_no_slash. apply dec_digits.
    + rewrite <- app_assoc. cbn [app]. rewrite <- app_assoc. reflexivity.
Qed.

(* ----- the predicate ----- *)

Variable S : str -> option node.

Definition SnapAt (f : fs) : Prop :=
  lookup f Dd = Some NDir /\ forall r, lookup f (Dd ++ ch_slash :: r) = S r.

Lemma SnapAt_add f p n : away Dd p -> lookup f p = None -> SnapAt f -> SnapAt (add_dent p n f).
Proof.
  intros Ha _ [H1 H2]. split.
  - rewrite lookup_add_dent_other; [exact H1|]. intros E. apply Ha. left. symmetry. exact E.
  - intros r. rewrite lookup_add_dent_other; [apply H2|]. intros E. apply Ha. right. exists r.
    symmetry. exact E.
Qed.

Lemma SnapAt_del f p : away Dd p -> SnapAt f -> SnapAt (del_dent p f).
Proof.
  intros Ha [H1 H2]. split.
  - rewrite lookup_del_dent_other; [exact H1|]. intros E. apply Ha. left. symmetry. exact E.
  - intros r. rewrite lookup_del_dent_other; [apply H2|]. intros E. apply Ha. right. exists r.
    symmetry. exact E.
Qed.

Lemma SnapAt_files f fl nx : SnapAt f -> SnapAt (mkFs (fs_dents f) fl nx).
Proof. intros H. exact H. Qed.

Local Notation Pw := (fun w : world => SnapAt (w_fs w)).
Local Notation OA := (fun _ : oracle => True).

Lemma snap_lift {A} (m : M A) : tok SnapAt m -> ht OA Pw m (fun _ => Pw) Pw.
Proof. apply tok_lift. Qed.

Ltac tvok1 := solve [apply tri_of_tok; tk_with leaf1].

(* ----- the queue ----- *)

Lemma snap_pop q : q_dir q = d -> tri SnapAt (fun q' => q_dir q' = d) (q_pop_head q).
Proof.
  intros Hq. unfold q_pop_head. tv; try exact Hq; try tvok1.
  apply tri_of_tok. apply tok_sys_unit. intros f Hf.
  eapply X_unlink; [exact SnapAt_del| |exact Hf]. rewrite Hq. apply aw_qentry.
Qed.

Lemma snap_get_head fuel : forall q,
  q_dir q = d -> tri SnapAt (fun r => q_dir (snd r) = d) (q_get_head fuel q).
Proof.
  induction fuel as [|fuel IH]; intros q Hq; cbn [q_get_head].
  - tv; try exact Hq; try tvok1.
  - tv; try exact Hq; try tvok1.
    + apply snap_pop. exact Hq.
    + match goal with H : (fun q' : qmem => _) _ |- _ => cbn beta in H; rename H into Hq' end.
      apply IH. exact Hq'.
Qed.

Lemma snap_record_event ev pid path h : tok SnapAt (record_event ev pid path h).
Proof. eapply fk_record_event. exact SnapAt_files. Qed.

(* ----- sync_shallow_tree onto the existing directory ----- *)

Lemma cp_Dd : tok SnapAt (create_parents Dd).
Proof.
  unfold create_parents. tk_with leaf1. eapply fk_mkdir_all; [exact SnapAt_add|].
  intros anc Hin. apply ancestor_away. apply parents_of_prefix. exact Hin.
Qed.

Lemma cl_Dd : tok SnapAt (clean_up Dd).
Proof.
  unfold clean_up, remove_empty_parents. tk_with leaf1. eapply fk_rmdir_up; [exact SnapAt_del|].
  intros anc Hin. apply in_rev in Hin. apply ancestor_away. apply parents_of_prefix. exact Hin.
Qed.

(* mkdir of a directory that exists: no success, no change *)
Lemma ht_mkdir_exists :
  ht OA Pw (k_mkdir Dd) (fun r w => SnapAt (w_fs w) /\ r <> None) Pw.
Proof.
  unfold k_mkdir, sys_unit. apply ht_sys.
  - auto.
  - intros w e Hw. split; [exact Hw | discriminate].
  - intros w Hw. pose proof Hw as [H1 _]. unfold fs_mkdir. rewrite H1.
    split; [exact Hw | discriminate].
Qed.

Lemma snap_sst_same rev src filt :
  ht OA Pw (sync_shallow_tree rev Dd src filt) (fun _ => Pw) Pw.
Proof.
  unfold sync_shallow_tree.
  eapply ht_bind; [apply snap_lift; apply cp_Dd|intros ?].
  eapply ht_bind with (R := fun b w => SnapAt (w_fs w) /\ b = tr_ok (w_tr w)); [apply ht_is_ok; auto|intros b].
  eapply ht_bind with (R := fun _ w => SnapAt (w_fs w) /\ tr_ok (w_tr w) = false).
  { destruct b.
    - eapply ht_bind.
      + eapply ht_pre; [|apply ht_mkdir_exists]. intros w [H _]. exact H.
      + intros r. destruct r as [e|].
        * destruct e; unfold throw_static, throw_errno, throw; apply ht_mod_tr;
            intros w [H _]; (split; [exact H | reflexivity]).
        * intros o w _ [_ H]. congruence.
    - apply ht_ret. intros w [H E]. split; [exact H|]. symmetry. exact E. }
  intros ?.
  eapply ht_bind with (R := fun b1 w => (SnapAt (w_fs w) /\ tr_ok (w_tr w) = false) /\ b1 = false).
  { apply ht_is_ok. intros w [H1 H2]. auto. }
  intros b1. apply ht_pure_pre with (phi := b1 = false); [intros w [_ E]; exact E|]. intros ->.
  eapply ht_bind with (R := fun _ w => SnapAt (w_fs w) /\ tr_ok (w_tr w) = false).
  { apply ht_ret. intros w [H _]. exact H. }
  intros opened.
  eapply ht_bind with (R := fun b2 w => SnapAt (w_fs w) /\ b2 = false).
  { apply ht_is_ok. intros w [H1 H2]. auto. }
  intros b2. apply ht_pure_pre with (phi := b2 = false); [intros w [_ E]; exact E|]. intros ->.
  cbn [negb].
  eapply ht_pre; [|apply snap_lift].
  { intros w [H _]. exact H. }
  tk_with leaf1; apply cl_Dd.
Qed.

Lemma snap_sst rev dst src filt :
  dst_ok dst -> (forall r, away Dd (src ++ ch_slash :: r)) -> src <> root_path -> src <> [] ->
  tok SnapAt (sync_shallow_tree rev dst src filt).
Proof.
  intros Hok Hs Hs1 Hs2. destruct (dst_cases dst Hok) as [E|[Ha Hb]].
  - subst dst. eapply ht_post; [|apply snap_sst_same]. intros a w H. split; [exact H | exact I].
  - eapply fk_sync_shallow_tree; try exact SnapAt_add; try exact SnapAt_del; try assumption.
    apply dst_ne_root. exact Hok.
Qed.

Lemma snap_project_store_loop fuel : forall rev sp unstable head cfg ev,
  spP sp -> (forall r, away Dd (unstable ++ ch_slash :: r)) -> unstable <> root_path -> unstable <> [] ->
  tok SnapAt (project_store_loop fuel rev sp unstable head cfg ev).
Proof.
  induction fuel as [|fuel IH]; intros rev sp unstable head cfg ev Hs Hu Hu1 Hu2;
    cbn [project_store_loop]; [apply tok_ret|].
  apply tok_bind; [tk_with leaf1|intros b]. destruct (negb b); [apply tok_ret|].
  apply tok_bind; [tk_with leaf1|intros ?].
  apply tok_bind.
  { apply snap_sst; try assumption. apply spP_current. exact Hs. }
  intros ?.
  apply tok_bind; [tk_with leaf1|intros c1]. destruct c1.
  - apply tok_bind; [tk_with leaf1|intros ?]. apply IH; auto using spP_increment.
  - tk_with leaf1.
Qed.

(* ----- the loop of the pass ----- *)

Theorem snap_loop fuel : forall rev h, HI c oj h -> q_dir (h_q h) = d ->
  ht (fun _ => True) (fun w => SnapAt (w_fs w)) (handle_timeout_loop fuel rev h)
     (fun _ w => SnapAt (w_fs w)) (fun w => SnapAt (w_fs w)).
Proof.
  change (forall rev h, HI c oj h -> q_dir (h_q h) = d ->
            htf SnapAt (handle_timeout_loop fuel rev h) (fun _ => SnapAt) SnapAt).
  induction fuel as [|fuel IH]; intros rev h Hh Eq; cbn [handle_timeout_loop].
  { apply htf_ret. auto. }
  assert (HPC : forall f, SnapAt f -> SnapAt f) by auto.
  eapply htf_bind_tri; [apply tri_of_tok; tk_with leaf1 | exact HPC | intros b _].
  destruct (negb b); [apply htf_ret; auto|].
  eapply htf_bind_tri; [apply tri_of_tok; tk_with leaf1 | exact HPC | intros ? _].
  eapply htf_bind_tri; [apply (snap_get_head _ (h_q h) Eq) | exact HPC | intros r Hr].
  eapply htf_bind_tri; [apply tri_of_tok; tk_with leaf1 | exact HPC | intros ? _].
  destruct r as [hd q1]. cbn [snd] in Hr.
  assert (Hh1 : HI c oj (set_q q1 h)) by (apply HI_set_q; [exact Hh | congruence]).
  set (h1 := set_q q1 h) in *.
  assert (Eq1 : q_dir (h_q h1) = d) by exact Hr.
  assert (Hret : forall r : tresult, htf SnapAt (ret_ (r, h1)) (fun _ : tresult * handler => SnapAt) SnapAt)
    by (intros r; apply htf_ret; auto).
  eapply htf_bind_tri; [apply tri_of_tok; tk_with leaf1 | exact HPC | intros b1 _].
  destruct b1; [|apply Hret].
  destruct hd as [[z|path meta]|]; [apply Hret| |apply Hret].
  pose proof Hh1 as [Ecfg [Ej Hqd]].
  rewrite Ecfg.
  eapply htf_bind_tri; [apply tri_of_tok; tk_with leaf1 | exact HPC | intros v _].
  apply htf_version_check. intros b2 Hb2.
  destruct v as [version|]; [|apply Hret].
  destruct b2; [|apply Hret].
  assert (Hver : ns version) by (apply (Hb2 eq_refl version eq_refl)).
  cbv zeta.
  match goal with |- htf _ (if ?x then _ else _) _ _ => destruct x end.
  { eapply htf_bind_tri; [apply tri_of_tok; tk_with leaf1 | exact HPC | intros ? _].
    eapply htf_bind_tri; [apply tri_of_tok; tk_with leaf1 | exact HPC | intros ? _].
    apply Hret. }
  destruct (N.odd meta).
  - (* project head *)
    eapply htf_bind_tri; [apply tri_of_tok; tk_with leaf1 | exact HPC | intros f _].
    eapply htf_bind_tri; [apply tri_of_tok | exact HPC | intros ev _].
    { apply snap_project_store_loop.
      - apply spP_create. exact Hver.
      - intros r. apply (aw_loc (c_unstable_root c)); [exact nn_ps_unst|]. right.
        exists (basename path ++ ch_slash :: r). rewrite <- app_assoc. reflexivity.
      - apply app_slash_ne_root. apply dl_unst_ne. exact D.
      - intros E. apply app_eq_nil in E. destruct E as [_ E]. discriminate E. }
    eapply htf_bind_tri; [apply tri_of_tok; apply snap_record_event | exact HPC | intros ? _].
    eapply htf_bind_tri; [apply (snap_pop (h_q h1) Eq1) | exact HPC | intros q2 Hq2].
    apply IH; [|exact Hq2]. apply HI_set_q; [exact Hh1 | congruence].
  - (* file head *)
    eapply htf_bind_tri;
      [apply tri_of_tok; destruct (N.testbit meta 1); tk_with leaf1 | exact HPC | intros off _].
    eapply htf_bind_tri; [apply tri_of_tok; tk_with leaf1 | exact HPC | intros b3 _].
    destruct (negb b3); [apply Hret|].
    eapply htf_bind_tri; [apply tri_of_tok; tk_with leaf1 | exact HPC | intros f _].
    eapply htf_bind_tri.
    + eapply (fk_file_store_loop _ SnapAt SnapAt_add SnapAt_del SnapAt_files _ _ path _ _ _ c (c_store_root c)).
      * apply spI_create.
      * intros p Hp. exact (aw_loc _ p nn_ps_store Hp).
      * apply (aw_loc (c_offset_root c)); [exact nn_ps_off|]. right. eexists. reflexivity.
    + exact HPC.
    + intros r2 Hr2. destruct r2 as [[ev is_stored] sp']. cbn [snd] in Hr2.
      eapply htf_bind_tri; [apply (snap_pop (h_q h1) Eq1) | exact HPC | intros q2 Hq2].
      assert (Hh2 : HI c oj (set_q q2 h1)) by (apply HI_set_q; [exact Hh1 | congruence]).
      eapply htf_bind_tri; [apply tri_of_tok; tk_with leaf1 | exact HPC | intros b4 _].
      destruct (negb b4).
      { eapply htf_bind_tri; [apply tri_of_tok; tk_with leaf1 | exact HPC | intros ? _].
        eapply htf_bind_tri; [apply tri_of_tok; tk_with leaf1 | exact HPC | intros ? _].
        apply htf_ret. auto. }
      eapply htf_bind_tri; [apply tri_of_tok | exact HPC | intros ? _].
      { match goal with |- tok _ (if ?x then _ else _) => destruct x end; [|apply tok_ret].
        match goal with |- context [k_unlink ?pp] => set (project_path := pp) end.
        assert (Hpa : away Dd project_path).
        { apply (aw_loc (c_unstable_root c)); [exact nn_ps_unst|]. right. eexists. reflexivity. }
        apply tok_bind; [eapply fk_unlink; [exact SnapAt_del | exact Hpa]|intros u].
        apply tok_bind; [destruct u as [[]|]; tk_with leaf1|intros ?].
        apply tok_bind; [eapply fk_create_parents; [exact SnapAt_add | exact Hpa]|intros ?].
        apply tok_bind; [tk_with leaf1|intros b5]. destruct b5; [|apply tok_ret].
        apply tok_bind; [eapply fk_link; [exact SnapAt_add | exact Hpa]|intros l]. destruct l; tk_with leaf1. }
      eapply htf_bind_tri; [apply tri_of_tok; apply snap_record_event | exact HPC | intros ? _].
      apply IH; [exact Hh2 | exact Hq2].
Qed.

End SnapFrame.

(* ---------- a concrete instance (the configuration of StoreExample) ---------- *)

Module SnapExample.
  Import StoreExample.
  Local Open Scope char_scope.

  Definition px : str := ["/"; "w"; "/"; "x"].
  Definition snap : str := ["/"; "p"; "/"; "x"; "/"; "1"; "0"; "0"].

  (* store /s, project store /p, unstable tree /u, queue /q, offsets /o,
     journal /j (open, inode 3).  The project /w/x (one file a) has an earlier
     snapshot /p/x/100 holding a link to inode 1; its unstable tree /u/x holds
     the latest stored version of a (inode 1).  The project is queued again
     (meta 1 = project entry) and the clock still says 100: the next snapshot
     wants the very same name. *)
  Definition fsX : fs :=
    mkFs [ (["/"; "s"], NDir); (["/"; "p"], NDir); (["/"; "p"; "/"; "x"], NDir);
           (snap, NDir); (snap ++ ["/"; "a"], NFile 1);
           (["/"; "u"], NDir); (["/"; "u"; "/"; "x"], NDir); (["/"; "u"; "/"; "x"; "/"; "a"], NFile 1);
           (["/"; "o"], NDir); (["/"; "j"], NFile 3);
           (["/"; "q"], NDir); (["/"; "q"; "/"; "0"], NLink (encode 1 px) 0%Z);
           (["/"; "w"], NDir); (px, NDir); (px ++ ["/"; "a"], NFile 4) ]
         [ (1, mkFile ["o"; "l"; "d"] true); (3, mkFile [] true);
           (4, mkFile ["n"; "e"; "w"; "e"; "r"] true) ]
         5.

  Definition hX : handler :=
    mkH cfg0 None 1 (mkQ p_queue 0 1 0%Z 16 [px]) (Some (mkJ 3 ["%"; "s"])) [] [].

  Definition wX : world := mkW fsX 0 [] 100%Z tr_empty.

  (* what is below the snapshot directory *)
  Definition SX (r : str) : option node := if str_eqb r ["a"] then Some (NFile 1) else None.

  Example hyps_hold :
    disjoint_locs cfg0 /\ qdir_ok2 cfg0 p_queue /\ ns ["x"] /\ ns ["1"; "0"; "0"] /\
    HI cfg0 (h_journal hX) hX /\ q_dir (h_q hX) = p_queue /\
    SnapAt cfg0 ["x"] ["1"; "0"; "0"] SX (w_fs wX).
  Proof.
    assert (D : disjoint_locs cfg0) by (apply disjoint_locsb_ok; vm_compute; reflexivity).
    pose proof (qdir_ok2_queue cfg0 D) as Hq.
    split; [exact D|]. split; [exact Hq|]. split; [reflexivity|]. split; [reflexivity|].
    split; [split; [reflexivity|split; [reflexivity|apply Hq]]|]. split; [reflexivity|].
    split; [vm_compute; reflexivity|].
    intros r. vm_compute. reflexivity.
  Qed.

  (* so: under every oracle, with any fuel, in either direction, the earlier
     snapshot is exactly as before when the loop returns or the process dies *)
  Example snapshot_survives : forall (o : oracle) (fuel : nat) (rev : bool),
    let f' := w_fs (snd (handle_timeout_loop fuel rev hX o wX)) in
    lookup f' snap = Some NDir /\
    lookup f' (snap ++ ["/"; "a"]) = Some (NFile 1) /\
    forall r, r <> ["a"] -> lookup f' (snap ++ "/" :: r) = None.
  Proof.
    intros o fuel rev f'.
    destruct hyps_hold as [D [Hq [Hn [Ht [Hh [Eq H0]]]]]].
    pose proof (snap_loop cfg0 (h_journal hX) p_queue D Hq ["x"] ["1"; "0"; "0"] Hn Ht SX
                  fuel rev hX Hh Eq o wX I H0) as H.
    assert (HS : SnapAt cfg0 ["x"] ["1"; "0"; "0"] SX f').
    { unfold f'. destruct (handle_timeout_loop fuel rev hX o wX) as [[a|] w']; exact H. }
    destruct HS as [H1 H2]. split; [exact H1|]. split.
    - exact (H2 ["a"]).
    - intros r Hr. pose proof (H2 r) as H3.
      change (lookup f' (snap ++ "/" :: r) = SX r) in H3. rewrite H3. unfold SX.
      destruct (str_eqb_spec r ["a"]) as [E|_]; [contradiction | reflexivity].
  Qed.

  (* the fault-free run does try the existing name: mkdir answers EEXIST and
     the new snapshot goes to /p/x/100-1, with a link to the same inode *)
  Example collision_run :
    let w' := snd (handle_timeout_loop 3 false hX no_faults wX) in
    In (CMkdir snap, RErr EEXIST) (w_log w') /\
    lookup (w_fs w') (snap ++ ["-"; "1"; "/"; "a"]) = Some (NFile 1) /\
    lookup (w_fs w') (snap ++ ["/"; "a"]) = Some (NFile 1) /\
    tr_ok (w_tr w') = true.
  Proof. vm_compute. repeat split; auto 20. Qed.

End SnapExample.

Check snap_pop.
Check snap_get_head.
Check snap_record_event.
Check snap_loop.
Print Assumptions SnapExample.snapshot_survives.
Print Assumptions snap_loop.
