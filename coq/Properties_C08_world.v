(* C08 at the level of the WORLD: the timeout pass over a HISTORY head,
   for every benign oracle.  PassProofs2.v.
   hist_ok  = the hypotheses on a history head: source readable with bytes b, the
              position file holds the decimal of off (absent for 0), off <= |b|,
              first candidate name free, ...
   hist_post = exactly one new version whose bytes are `skipn off b`; the
              position file now holds |b|; the head link is gone; every other
              name and inode (journal aside) unchanged. *)
From K Require Import Str Dec Trace Fs World Progs Sieve Handler Linq LinqSpec LinqProofs
     DecProofs SyncProofs AbandonProofs JournalProofs QueueProofs Confine HistoryProofs PassProofs PassProofs2.

(* one pass over a due history head: the version is exactly the appended slice
   and the remembered position becomes the file's length *)
Theorem C08_world_history_head : forall o rev h w p t rest i b off,
  benign o ->
  tr_ok (w_tr w) = true -> keys_nodup (w_fs w) ->
  QRel (h_q h) (w_fs w) ((p, 2%N, t) :: rest) ->
  (q_deb (h_q h) <= w_clock w - t)%Z ->
  occurs p rest = false ->
  not_due (w_clock w) (q_deb (h_q h)) rest ->
  hist_ok (h_cfg h) (h_cpl h) (h_journal h) (q_dir (h_q h)) (w_fs w) (w_clock w) p i b off ->
  exists w',
    handle_timeout rev h o w =
      (Some (TPause (pause_of (w_clock w) (q_deb (h_q h)) rest), set_q (popped p (h_q h)) h), w') /\
    hist_post (h_cfg h) (h_cpl h) (h_journal h) (head_name (h_q h))
              (w_fs w) (w_fs w') (w_clock w) p b off /\
    QRel (popped p (h_q h)) (w_fs w') rest /\ keys_nodup (w_fs w') /\
    tr_ok (w_tr w') = true /\ (t_post (w_tr w) = 0 -> w_tr w' = w_tr w) /\
    w_clock w' = w_clock w.
Proof. exact handle_timeout_one_history_head. Qed.
Print Assumptions C08_world_history_head.

(* a chain of passes, each seeing the file as it then is (hist_chain: every
   stage meets the hypotheses above with the position the previous pass left;
   between passes anything may happen that keeps the versions made so far): the
   k-th version is the k-th slice, all versions are still there at the end, and
   when the file only grew they concatenate, in order, to its last content *)
Theorem C08_world_versions_concatenate : forall o p i sts ffin,
  benign o ->
  hist_chain o p i 0 [] sts ffin ->
  let vs := versions p 0 sts in
  length vs = length sts /\
  Forall (version_in ffin) vs /\
  map v_bytes vs = slices 0 (map s_b sts) /\
  (grows [] (map s_b sts) -> concat (map v_bytes vs) = last (map s_b sts) []).
Proof. exact history_versions_concatenate. Qed.
Print Assumptions C08_world_versions_concatenate.

(* non-vacuity: a history file stored twice with an append in between, and a
   plain file stored while two candidate names are taken (Pass2Example) *)
Example C08_world_ready1 := Pass2Example.ready1.
Example C08_world_chain := Pass2Example.chain_holds.
