(* C14 / C03 at the level of the HANDLER over histories WITH RESTARTS
   (RestartHistory.v): steps are an accepted plain write, a timeout pass, a change of
   the world that leaves the queue directory alone, and a RESTART - the real
   load_handler in a fresh process on the disk as it is.  The reference queue is
   computed from the event list alone (ref_run: a write appends (path, 0, now), a
   pass keeps the part that is not due, a restart changes nothing).  For every
   benign oracle:
     after any such history the in-memory queue and the queue directory refine the
     reference queue, and the directory is a GAP-FREE run of numbered links
     (gap_free: link head+i is entry i with its time; no other name in the
     directory; the numeric names outside the window are free) - at every prefix of
     the history;
     a restart "reloads to the same queue": same entries, same head, same next
     name, the disk untouched;
     a restart between acceptance and the pass changes nothing the user can see:
     the pass stores the same versions (same pass_facts). *)
From K Require Import Str Dec Trace Fs World Progs Sieve Handler Linq LinqSpec LinqProofs
     QueueProofs PassProofs BurstProofs RestartHistory.

Theorem C14_restart_history_queue : forall o s h w q0,
  benign o -> rinv h w q0 -> rhist_ok o s h w q0 ->
  let R := ref_run (q_deb (h_q h)) s (w_clock w) q0 in
  exists h' w',
    rrun o s h w = (Some h', w') /\
    QRel (h_q h') (w_fs w') R /\
    gap_free (q_dir (h_q h)) (w_fs w') (q_head (h_q h')) R /\
    q_size (h_q h') = N.of_nat (length R) /\
    next_name (h_q h') = join (q_dir (h_q h)) (dec (q_head (h_q h') + N.of_nat (length R))) /\
    lookup (w_fs w') (next_name (h_q h')) = None /\
    rinv h' w' R /\ w_clock w' = ref_clock s (w_clock w) /\ rsame h h'.
Proof. exact restart_history_queue. Qed.
Print Assumptions C14_restart_history_queue.

Theorem C14_gap_free_at_all_times : forall o s h w q0,
  benign o -> rinv h w q0 -> rhist_ok o s h w q0 ->
  forall s1 s2, s = s1 ++ s2 ->
  let R := ref_run (q_deb (h_q h)) s1 (w_clock w) q0 in
  exists h1 w1,
    rrun o s1 h w = (Some h1, w1) /\
    gap_free (q_dir (h_q h)) (w_fs w1) (q_head (h_q h1)) R /\
    q_size (h_q h1) = N.of_nat (length R) /\ QRel (h_q h1) (w_fs w1) R.
Proof. exact gap_free_at_all_times. Qed.
Print Assumptions C14_gap_free_at_all_times.

Theorem C14_restart_reloads_same_queue : forall o s h w q0,
  benign o -> rinv h w q0 -> rhist_ok o (s ++ [RRestart]) h w q0 ->
  let R := ref_run (q_deb (h_q h)) s (w_clock w) q0 in
  exists h1 w1 h2 w2,
    rrun o s h w = (Some h1, w1) /\ rrun o (s ++ [RRestart]) h w = (Some h2, w2) /\
    ref_run (q_deb (h_q h)) (s ++ [RRestart]) (w_clock w) q0 = R /\
    QRel (h_q h1) (w_fs w1) R /\ QRel (h_q h2) (w_fs w2) R /\
    w_fs w2 = w_fs w1 /\ w_clock w2 = w_clock w1 /\
    q_head (h_q h2) = q_head (h_q h1) /\ q_size (h_q h2) = q_size (h_q h1) /\
    next_name (h_q h2) = next_name (h_q h1) /\
    rsame h1 h2 /\ h_pids h2 = [] /\ h_interps h2 = [].
Proof. exact restart_reloads_same_queue. Qed.
Print Assumptions C14_restart_reloads_same_queue.

Theorem C03_restart_then_pass_same_as_no_restart : forall o s1 rev h w q0,
  benign o -> rinv h w q0 -> rhist_ok o (s1 ++ [RRestart; RPass rev]) h w q0 ->
  let deb := q_deb (h_q h) in let now := ref_clock s1 (w_clock w) in
  let R := ref_run deb s1 (w_clock w) q0 in
  exists hb wb es hA wA hB wB,
    rrun o s1 h w = (Some hb, wb) /\ w_clock wb = now /\
    rrun o (s1 ++ [RRestart; RPass rev]) h w = (Some hA, wA) /\
    rrun o (s1 ++ [RPass rev]) h w = (Some hB, wB) /\
    map qent_of es = winners (due_part now deb R) (rest_part now deb R) /\
    all_ok (h_cfg h) (h_cpl h) (h_journal h) (q_dir (h_q h)) (w_fs wb) now es /\
    pass_facts (h_cfg h) (h_cpl h) (h_journal h) (q_dir (h_q h)) now (w_fs wb) es (w_fs wA) /\
    pass_facts (h_cfg h) (h_cpl h) (h_journal h) (q_dir (h_q h)) now (w_fs wb) es (w_fs wB) /\
    ref_run deb (s1 ++ [RRestart; RPass rev]) (w_clock w) q0 = rest_part now deb R /\
    ref_run deb (s1 ++ [RPass rev]) (w_clock w) q0 = rest_part now deb R /\
    rinv hA wA (rest_part now deb R) /\ rinv hB wB (rest_part now deb R) /\
    rsame h hA /\ rsame h hB /\ w_clock wA = now /\ w_clock wB = now.
Proof. exact restart_then_pass_same_as_no_restart. Qed.
Print Assumptions C03_restart_then_pass_same_as_no_restart.

(* non-vacuity: write a, write b, restart, a rewritten, write a, restart at 110 s, pass *)
Example C14_restart_instance := RestartExample.queue_by_theorem.
Example C14_reload_instance := RestartExample.reload_by_theorem.
