(* C06 at the level of the WORLD: handle_close_write (the handler's reaction to one
   close-after-write event) over the file system and the queue directory.  The
   decision of Properties_C06 (deepest matching rule) is what the handler acts on:
   a write is queued - one new numbered link in the queue directory, QRel extended
   by an entry for exactly that path at the current time - iff the deciding rule
   says so for this writer; a rejected write leaves the handler and the directory
   entries of the whole file system unchanged (only the journal is appended to).
   Definitions (AcceptProofs.v, SieveSpec.v): decides c k ends = c is the deepest
   matching class (end k) among the rule ends of the path; outcome ed c = the
   verdict of class c for a writer that is (ed) or is not an editor. *)
From K Require Import Str Dec Trace Fs World Progs Sieve SieveSpec SieveProofs Handler Linq LinqSpec
     LinqProofs QueueProofs JournalProofs PassProofs AcceptProofs.

Theorem C06_world_queued_iff_deepest_rule : forall o w h pid path nc ents c k,
  let ed := pid_mem pid (h_pids h) in
  let pd := push_decision (c_rules (h_cfg h)) (h_cpl h) ed path in
  benign o -> tr_ok (w_tr w) = true ->
  QRel (h_q h) (w_fs w) ents ->
  decides c k (rule_ends (c_rules (h_cfg h)) (h_cpl h) path) ->
  h_cfg_path h <> Some path ->
  journal_fits (h_journal h) (write_ev (h_cfg h) (outcome ed c)) (w_clock w) ->
  (outcome ed c = true ->
     normal path /\ fits (q_len_guess (h_q h)) (path, linq_meta (snd (fst pd)) (snd pd), w_clock w)) ->
  exists h' w' es,
    handle_close_write pid path nc h o w = (Some h', w') /\
    QRel (h_q h') (w_fs w') (ents ++ es) /\
    (es <> [] <-> outcome ed c = true) /\
    (outcome ed c = true -> exists m rest, es = (path, m, w_clock w) :: rest) /\
    (outcome ed c = false -> h' = h /\ fs_dents (w_fs w') = fs_dents (w_fs w)) /\
    tr_ok (w_tr w') = true.
Proof. exact write_queued_iff_deepest_rule. Qed.
Print Assumptions C06_world_queued_iff_deepest_rule.

(* no rule matches: the writer being an editor is what decides *)
Theorem C06_world_default : forall o w h pid path nc ents,
  let ed := pid_mem pid (h_pids h) in
  let pd := push_decision (c_rules (h_cfg h)) (h_cpl h) ed path in
  benign o -> tr_ok (w_tr w) = true ->
  QRel (h_q h) (w_fs w) ents ->
  (forall c e, In (c, e) (rule_ends (c_rules (h_cfg h)) (h_cpl h) path) -> e = None) ->
  h_cfg_path h <> Some path ->
  journal_fits (h_journal h) (write_ev (h_cfg h) ed) (w_clock w) ->
  (ed = true ->
     normal path /\ fits (q_len_guess (h_q h)) (path, linq_meta (snd (fst pd)) (snd pd), w_clock w)) ->
  fst (fst pd) = ed /\
  exists w', accept_post o w h pid path nc ents ed (snd (fst pd)) (snd pd) w'.
Proof. exact accept_write_default. Qed.
Print Assumptions C06_world_default.

(* a rejected write under EVERY oracle (failing calls, crash, error already
   pending): the only calls made are writes (the journal), no directory entry of
   the file system changes, and a handler that is returned is the old one *)
Theorem C06_world_rejected_every_oracle : forall (o : oracle) w h pid path nc ih pre r w',
  push_decision (c_rules (h_cfg h)) (h_cpl h) (pid_mem pid (h_pids h)) path = (false, ih, pre) ->
  h_cfg_path h <> Some path ->
  handle_close_write pid path nc h o w = (r, w') ->
  log_ext is_write w w' /\ (forall h', r = Some h' -> h' = h).
Proof. exact rejected_write_every_oracle. Qed.
Print Assumptions C06_world_rejected_every_oracle.

(* non-vacuity: a world with an excluded directory, an included directory below it,
   a project, a history path, an editor and a non-editor (AcceptExample) *)
Example C06_world_included_any_pid := AcceptExample.C06_included_any_pid.
Example C06_world_excluded_any_pid := AcceptExample.C06_excluded_any_pid.
Example C06_world_default_instance := AcceptExample.C06_default_a.
