(* C13 for the reader of /proc/self/mounts (src/mountinfo.c, model MountParse.v):
   the decoding is done in place in the C, so it must never grow the field; every
   piece handed on is cut from inside the text that was read.  Statements only;
   proofs in MountProofs.v. *)
From K Require Import Str MountParse MountProofs.

Theorem C13_mount_field_never_grows : forall s : str, length (unescape s) <= length s.
Proof. exact unescape_length. Qed.
Print Assumptions C13_mount_field_never_grows.

Theorem C13_mount_points_inside_table : forall (decode : bool) (content : str),
  Forall (fun f => length f < length content) (parse_mounts_gen decode content).
Proof. exact parse_mounts_length. Qed.
Print Assumptions C13_mount_points_inside_table.


Theorem C13_mount_records_inside_table : forall (d : ascii) (s : str),
  sum_len (split_on d s) + count_ch d s = length s.
Proof. exact split_on_lengths. Qed.
Print Assumptions C13_mount_records_inside_table.
