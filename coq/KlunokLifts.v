(* Three theorems of DaemonProofs.v, stated there for Daemon.daemon_loop from a
   loaded handler, lifted to the WHOLE PROGRAM Klunok.klunok env cfg rev ns
   (start-up of Main.main, the REAL load_handler, then daemon_loop).

     load_handler_fresh          what load_handler returns has an empty pid
                                 table and an empty loader list (from its
                                 definition: mkH cfg cfg_path cpl qm j [] [])
     klunok_no_exit_inv          an exit-free whole run: start-up succeeded,
                                 load_handler built h in w1, the loop ran from
                                 (h, w1) to the final world
     klunok_config_in_force      (1) C16, EVERY oracle
     klunok_heads_track_attribution / klunok_tracks_attribution
                                 (2) C07, benign oracles, every loop head
     klunok_non_editor_never_queued / klunok_editor_always_queued
                                 (3) the two sentences of C07 at the next write
                                 notification of a whole-program run
     Module LiftExample          (1), (2) and (3) on KlunokExample's run. *)
From K Require Import Str Dec Trace Fs World Progs Elf Sieve SieveSpec Handler Linq LinqSpec LinqProofs
     Hoare Confine Confine2 SyncProofs AbandonProofs JournalProofs QueueProofs StoreFs StoreLogic StoreProofs
     FdProofs PassProofs JournalHistoryProofs AcceptProofs ReloadProofs AttrProofs ReloadHistory MixedHistory
     Main MainProofs Daemon DaemonProofs Klunok KlunokProofs WholeResources.
From Coq Require Import Lia.
Arguments N.add : simpl never.
Arguments N.sub : simpl never.
Arguments N.mul : simpl never.
Arguments N.of_nat : simpl never.
Arguments N.to_nat : simpl never.
Arguments N.eqb : simpl never.
Arguments N.leb : simpl never.
Arguments N.ltb : simpl never.

Local Open Scope N_scope.

(* ====================================================================== *)
(* 0. what load_handler returns; the shape of an exit-free whole run      *)
(* ====================================================================== *)

(* load_handler starts with no marks and no loaders (every oracle) *)
Lemma load_handler_fresh (o : oracle) w cfg cp cpl h w' :
  load_handler cfg cp cpl o w = (Some (Some h), w') ->
  h_pids h = [] /\ h_interps h = [].
Proof.
  intros H. unfold load_handler in H.
  binv H as u0 w0 E0.
  binv H as q wl El.
  binv H as u1 w1 E1. binv H as u2 w2 E2.
  binv H as u3 w3 E3.
  binv H as j wo Eo.
  binv H as u4 w4 E4.
  binv H as u5 w5 E5.
  binv H as b w6 E6.
  destruct b; [destruct q as [qm|]|].
  - apply ret_some in H. destruct H as [_ Hh]. injection Hh as ->.
    cbn [h_pids h_interps]. split; reflexivity.
  - exfalso. binv H as u7 w7 E7. binv H as u8 w8 E8. apply ret_some in H. destruct H as [_ H]. discriminate.
  - exfalso. binv H as u7 w7 E7. binv H as u8 w8 E8. apply ret_some in H. destruct H as [_ H]. discriminate.
Qed.

(* everything known of the handler load_handler built *)
Definition fresh_for (cfg : config) (cfgp : option str) (cpl : nat) (h : handler) : Prop :=
  h_cfg h = cfg /\ h_cfg_path h = cfgp /\ h_cpl h = cpl /\ h_pids h = [] /\ h_interps h = [] /\ coherent h.

Lemma load_handler_fresh_for (o : oracle) w cfg cp cpl h w' :
  load_handler cfg cp cpl o w = (Some (Some h), w') -> fresh_for cfg cp cpl h /\ okw w' = true.
Proof.
  intros E.
  destruct (load_handler_coherent o w cfg cp cpl h w' E) as (A1 & A2 & A3 & A4 & A5 & K).
  destruct (load_handler_fresh o w cfg cp cpl h w' E) as [_ A6].
  unfold fresh_for. auto 10.
Qed.

(* [loaded] spelled out *)
Lemma loaded_some env cfg o w h w1 :
  loaded env cfg o w = Some (h, w1) ->
  exists pre cfgp cpl u g k,
    startup env = (pre, Some (cfgp, cpl, u, g, k)) /\
    load_handler cfg cfgp cpl o w = (Some (Some h), w1) /\
    fresh_for cfg cfgp cpl h /\ okw w1 = true.
Proof.
  unfold loaded. intros E. destruct (startup env) as [pre [a|]] eqn:Es; cbn [snd] in E; [|discriminate E].
  destruct a as [[[[c cpl] u] g] k].
  destruct (load_handler cfg c cpl o w) as [[[h0|]|] w0] eqn:El; try discriminate E.
  injection E as <- <-. exists pre, c, cpl, u, g, k. split; [reflexivity|]. split; [exact El|].
  exact (load_handler_fresh_for _ _ _ _ _ _ _ El).
Qed.

(* A whole run that returns without an exit item: start-up succeeded with
   non-zero credentials, the real load_handler built h in world w1, and the
   loop ran from (h, w1) to the final world.  EVERY oracle. *)
Lemma klunok_no_exit_inv (env : Main.env) (cfg : config) (rev : bool) (ns : list notif)
      (o : oracle) (w : world) outs w' :
  klunok env cfg rev ns o w = (Some outs, w') -> no_exit outs ->
  exists pre cfgp cpl u g h w1 outs2 h',
    startup env = (pre, Some (cfgp, cpl, u, g, 0%nat)) /\ u <> 0 /\ g <> 0 /\
    load_handler cfg cfgp cpl o w = (Some (Some h), w1) /\
    loaded env cfg o w = Some (h, w1) /\
    daemon_loop (e_self env) rev ns 0%Z h o w1 = (Some (outs2, h'), w') /\
    outs = pre ++ OLoad cfgp cpl u g 0 :: outs2 /\ no_exit outs2 /\
    fresh_for cfg cfgp cpl h /\ okw w1 = true.
Proof.
  intros E Hne. unfold klunok in E. destruct (startup env) as [pre [a|]] eqn:Es.
  2:{ exfalso. unfold ret_ in E. injection E as <- _.
      destruct (startup_none env pre Es) as (p0 & c & t & -> & _).
      apply (Hne c t). apply in_or_app. right. left. reflexivity. }
  destruct a as [[[[c cpl] u] g] n].
  destruct (startup_some env _ _ _ _ _ _ Es) as (_ & Hu & Hg & -> & _).
  rewrite run_loaded_run in E.
  destruct (load_handler cfg c cpl o w) as [[[h|]|] w1] eqn:El; [| |discriminate E].
  2:{ exfalso. injection E as <- _. apply (Hne 1%nat (Some T_load)). apply in_or_app. right. right. left. reflexivity. }
  destruct (daemon_loop (e_self env) rev ns 0%Z h o w1) as [[[outs2 h2]|] w2] eqn:Ed; [|discriminate E].
  injection E as <- <-. cbn [fst] in Hne.
  assert (Hne2 : no_exit outs2).
  { intros c0 t0 Hin. apply (Hne c0 t0). apply in_or_app. right. right. exact Hin. }
  destruct (load_handler_fresh_for _ _ _ _ _ _ _ El) as [Hf K].
  exists pre, c, cpl, u, g, h, w1, outs2, h2.
  split; [reflexivity|]. split; [exact Hu|]. split; [exact Hg|]. split; [exact El|].
  split; [unfold loaded; rewrite Es; cbn [snd]; rewrite El; reflexivity|].
  split; [exact Ed|]. split; [reflexivity|]. split; [exact Hne2|]. split; [exact Hf|exact K].
Qed.

(* ====================================================================== *)
(* (1) C16: the configuration in force at the end of a whole run          *)
(* ====================================================================== *)

(* EVERY oracle, environment, configuration, world, notification list.  If the
   whole program returns an out list without an exit item, then start-up
   succeeded, load_handler returned a handler h for cfg (in world w1), the loop
   ran from (h, w1) and the handler h' it ends with carries the configuration
   in force according to the specification (cfg_in_force folded over the steps
   of the notifications, from cfg and the -c path); the debounce and the
   directory of the queue and the journal handle are those of that
   configuration; configuration path and common-parent length are those of
   start-up. *)
Theorem klunok_config_in_force (env : Main.env) (cfg : config) (rev : bool) (ns : list notif)
        (o : oracle) (w : world) outs w' :
  envs_ok ns ->
  klunok env cfg rev ns o w = (Some outs, w') -> no_exit outs ->
  exists pre cfgp cpl u g h w1 outs2 h',
    startup env = (pre, Some (cfgp, cpl, u, g, 0%nat)) /\
    load_handler cfg cfgp cpl o w = (Some (Some h), w1) /\
    h_cfg h = cfg /\ h_cfg_path h = cfgp /\ h_cpl h = cpl /\
    daemon_loop (e_self env) rev ns 0%Z h o w1 = (Some (outs2, h'), w') /\
    outs = pre ++ OLoad cfgp cpl u g 0 :: outs2 /\
    let c := cfg_of_notifs (e_self env) cfgp cfg ns in
    c = cfg_in_force cfgp cfg (steps_of (e_self env) rev ns) /\
    h_cfg h' = c /\
    q_deb (h_q h') = c_debounce c /\
    q_dir (h_q h') = c_queue_path c /\
    journal_of c (h_journal h') /\
    h_cfg_path h' = cfgp /\ h_cpl h' = cpl.
Proof.
  intros He E Hne.
  destruct (klunok_no_exit_inv env cfg rev ns o w outs w' E Hne)
    as (pre & cfgp & cpl & u & g & h & w1 & outs2 & h' & Es & _ & _ & El & _ & Ed & Eo & Hne2 & Hf & K).
  destruct Hf as (A1 & A2 & A3 & _ & _ & Hc).
  pose proof (daemon_config_in_force _ _ _ _ _ _ _ _ _ _ Hc K He Ed Hne2) as D. cbv zeta in D.
  rewrite A1, A2, A3 in D.
  exists pre, cfgp, cpl, u, g, h, w1, outs2, h'.
  split; [exact Es|]. split; [exact El|]. split; [exact A1|]. split; [exact A2|]. split; [exact A3|].
  split; [exact Ed|]. split; [exact Eo|]. cbv zeta. exact D.
Qed.
Print Assumptions klunok_config_in_force.

(* ====================================================================== *)
(* (2) C07: marks and loaders at every loop head of the whole program     *)
(* ====================================================================== *)

Lemma envs_ok_app_l pre : forall post, envs_ok (pre ++ post) -> envs_ok pre.
Proof.
  induction pre as [|n rest IH]; intros post H; [exact I|].
  destruct n; cbn [app envs_ok] in *; try exact (IH _ H).
  destruct H as [K H]. split; [exact K|exact (IH _ H)].
Qed.

(* [loaded] hands load_handler the path WholeResources.startup_cfg_path names *)
Lemma loaded_cfg_path env cfg o w h w1 :
  loaded env cfg o w = Some (h, w1) -> h_cfg_path h = startup_cfg_path env /\ h_cfg h = cfg.
Proof.
  intros E. destruct (loaded_some _ _ _ _ _ _ E) as (pre & cfgp & cpl & u & g & k & Es & _ & (A1 & A2 & _) & _).
  unfold startup_cfg_path. rewrite Es. cbn [snd]. split; assumption.
Qed.

(* The general form, in terms of [loaded]: it does not ask the whole run to
   return (the program may exit or die after that loop head).  Benign oracle;
   start-up and load_handler succeeded: (h, w1); the daemon went through the
   notifications [pre_ns] (none of them a write of the -c path) and is at the
   loop head in (hp, wp).  Then a pid is marked exactly when is_editor_at says
   so on the attribution events of the run so far, under the editors of cfg;
   the loader list is that of the specification. *)
Theorem klunok_heads_track_attribution (env : Main.env) (cfg : config) (rev : bool) (pre_ns : list notif)
        (o : oracle) (w : world) h w1 zp hp wp :
  benign o ->
  loaded env cfg o w = Some (h, w1) ->
  envs_ok pre_ns -> no_cfg_event (startup_cfg_path env) pre_ns ->
  daemon_state (e_self env) rev o pre_ns 0%Z h w1 = Some (zp, hp, wp) ->
  (forall pid : N, pid_mem pid (h_pids hp) =
                   is_editor_at (c_editors cfg) (events_along (e_self env) rev o pre_ns h w1) pid) /\
  h_interps hp = s_ld (spec_state (c_editors cfg) (events_along (e_self env) rev o pre_ns h w1)) /\
  same_setup h hp /\ okw wp = true.
Proof.
  intros H El He Hcp E.
  destruct (loaded_some _ _ _ _ _ _ El) as (pre & cfgp & cpl & u & g & k & Es & _ & (A1 & A2 & A3 & A4 & A5 & _) & K).
  destruct (loaded_cfg_path _ _ _ _ _ _ El) as [Ep _]. rewrite <- Ep in Hcp.
  pose proof (daemon_tracks_attribution _ _ _ _ _ _ _ _ _ _ H K He Hcp A4 A5 E) as D.
  rewrite A1 in D. exact D.
Qed.
Print Assumptions klunok_heads_track_attribution.

(* The same for a whole run that returned without an exit item: at EVERY loop
   head (after any prefix pre_ns of the notifications without a write of the
   -c path). *)
Theorem klunok_tracks_attribution (env : Main.env) (cfg : config) (rev : bool) (ns : list notif)
        (o : oracle) (w : world) outs w' :
  benign o -> envs_ok ns ->
  klunok env cfg rev ns o w = (Some outs, w') -> no_exit outs ->
  exists pre cfgp cpl u g h w1 outs2 h',
    startup env = (pre, Some (cfgp, cpl, u, g, 0%nat)) /\
    load_handler cfg cfgp cpl o w = (Some (Some h), w1) /\
    h_cfg h = cfg /\ h_cfg_path h = cfgp /\ h_cpl h = cpl /\ h_pids h = [] /\ h_interps h = [] /\
    daemon_loop (e_self env) rev ns 0%Z h o w1 = (Some (outs2, h'), w') /\
    outs = pre ++ OLoad cfgp cpl u g 0 :: outs2 /\
    forall pre_ns post zp hp wp,
      ns = pre_ns ++ post -> no_cfg_event cfgp pre_ns ->
      daemon_state (e_self env) rev o pre_ns 0%Z h w1 = Some (zp, hp, wp) ->
      (forall pid : N, pid_mem pid (h_pids hp) =
                       is_editor_at (c_editors cfg) (events_along (e_self env) rev o pre_ns h w1) pid) /\
      h_interps hp = s_ld (spec_state (c_editors cfg) (events_along (e_self env) rev o pre_ns h w1)) /\
      h_cfg hp = cfg /\ h_cfg_path hp = cfgp /\ h_cpl hp = cpl /\ okw wp = true.
Proof.
  intros H He E Hne.
  destruct (klunok_no_exit_inv env cfg rev ns o w outs w' E Hne)
    as (pre & cfgp & cpl & u & g & h & w1 & outs2 & h' & Es & _ & _ & El & _ & Ed & Eo & _ & Hf & K).
  destruct Hf as (A1 & A2 & A3 & A4 & A5 & _).
  exists pre, cfgp, cpl, u, g, h, w1, outs2, h'.
  split; [exact Es|]. split; [exact El|]. split; [exact A1|]. split; [exact A2|]. split; [exact A3|].
  split; [exact A4|]. split; [exact A5|]. split; [exact Ed|]. split; [exact Eo|].
  intros pre_ns post zp hp wp -> Hcp Est.
  rewrite <- A2 in Hcp.
  destruct (daemon_tracks_attribution _ _ _ _ _ _ _ _ _ _ H K (envs_ok_app_l _ _ He) Hcp A4 A5 Est)
    as (T1 & T2 & (B1 & B2 & B3) & Kp).
  rewrite A1 in T1, T2. split; [exact T1|]. split; [exact T2|].
  split; [congruence|]. split; [congruence|]. split; [congruence|exact Kp].
Qed.
Print Assumptions klunok_tracks_attribution.

(* ====================================================================== *)
(* (3) the two sentences of C07 at the next write notification            *)
(* ====================================================================== *)

(* "Writes by non-editor processes to paths that are not force-included are
   never queued", for the whole program: start-up and load_handler succeeded
   (h, w1); the daemon went through [pre_ns] and is at the loop head (hp, wp);
   the next notification is a write by a process that does not count as an
   editor after the attribution events of the run so far, for a path that is
   neither "included" nor "history" under cfg and the common-parent length of
   start-up.  The dispatch returns the handler unchanged, the queue is the queue
   of before, no name of the file system changes, no error. *)
Theorem klunok_non_editor_never_queued (env : Main.env) (cfg : config) (rev : bool) (pre_ns : list notif)
        (o : oracle) (w : world) e path nc h w1 zp hp wp ents :
  benign o ->
  loaded env cfg o w = Some (h, w1) ->
  envs_ok pre_ns -> no_cfg_event (startup_cfg_path env) pre_ns ->
  daemon_state (e_self env) rev o pre_ns 0%Z h w1 = Some (zp, hp, wp) ->
  foreign_write (e_self env) e -> startup_cfg_path env <> Some path ->
  is_editor_at (c_editors cfg) (events_along (e_self env) rev o pre_ns h w1) (ev_pid e) = false ->
  class_of cfg (h_cpl h) path <> Some (CRule KIncluded) ->
  class_of cfg (h_cpl h) path <> Some (CRule KHistory) ->
  QRel (h_q hp) (w_fs wp) ents ->
  journal_fits (h_journal hp) (c_ev_write_not_by_editor cfg) (w_clock wp) ->
  exists w2,
    dispatch_of (e_self env) (NEvent e path nc) hp o wp = (Some hp, w2) /\
    QRel (h_q hp) (w_fs w2) ents /\ fs_dents (w_fs w2) = fs_dents (w_fs wp) /\
    okw w2 = true /\ w_clock w2 = w_clock wp.
Proof.
  intros H El He Hcp E Hfw Hpath Hed Hc1 Hc2 HR Hjf.
  destruct (loaded_some _ _ _ _ _ _ El) as (pre & cfgp & cpl & u & g & k & Es & _ & (A1 & A2 & A3 & A4 & A5 & _) & K).
  destruct (loaded_cfg_path _ _ _ _ _ _ El) as [Ep _]. rewrite <- Ep in Hcp, Hpath. rewrite <- A1 in Hed, Hc1, Hc2, Hjf.
  exact (daemon_non_editor_never_queued _ _ _ _ _ _ nc _ _ _ _ _ _ _ H K He Hcp A4 A5 E Hfw Hpath Hed Hc1 Hc2 HR Hjf).
Qed.
Print Assumptions klunok_non_editor_never_queued.

(* "Writes by editor processes to visible, non-excluded paths always are" *)
Theorem klunok_editor_always_queued (env : Main.env) (cfg : config) (rev : bool) (pre_ns : list notif)
        (o : oracle) (w : world) e path nc h w1 zp hp wp ents :
  benign o ->
  loaded env cfg o w = Some (h, w1) ->
  envs_ok pre_ns -> no_cfg_event (startup_cfg_path env) pre_ns ->
  daemon_state (e_self env) rev o pre_ns 0%Z h w1 = Some (zp, hp, wp) ->
  foreign_write (e_self env) e -> startup_cfg_path env <> Some path ->
  is_editor_at (c_editors cfg) (events_along (e_self env) rev o pre_ns h w1) (ev_pid e) = true ->
  class_of cfg (h_cpl h) path <> Some CHidden ->
  class_of cfg (h_cpl h) path <> Some (CRule KExcluded) ->
  QRel (h_q hp) (w_fs wp) ents ->
  journal_fits (h_journal hp) (c_ev_write_by_editor cfg) (w_clock wp) ->
  normal path ->
  (forall ih pr, push_decision (c_rules cfg) (h_cpl h) true path = (true, ih, pr) ->
                 fits (q_len_guess (h_q hp)) (path, linq_meta ih pr, w_clock wp)) ->
  exists ih pr w2,
    push_decision (c_rules cfg) (h_cpl h) true path = (true, ih, pr) /\
    dispatch_of (e_self env) (NEvent e path nc) hp o wp = (Some (set_q (acc_q path pr (h_q hp)) hp), w2) /\
    QRel (acc_q path pr (h_q hp)) (w_fs w2) (ents ++ acc_ents path ih pr (w_clock wp)) /\
    okw w2 = true /\ w_clock w2 = w_clock wp.
Proof.
  intros H El He Hcp E Hfw Hpath Hed Hc1 Hc2 HR Hjf Hn Hfit.
  destruct (loaded_some _ _ _ _ _ _ El) as (pre & cfgp & cpl & u & g & k & Es & _ & (A1 & A2 & A3 & A4 & A5 & _) & K).
  destruct (loaded_cfg_path _ _ _ _ _ _ El) as [Ep _]. rewrite <- Ep in Hcp, Hpath.
  rewrite <- A1 in Hed, Hc1, Hc2, Hjf, Hfit. rewrite <- A1.
  exact (daemon_editor_always_queued _ _ _ _ _ _ nc _ _ _ _ _ _ _ H K He Hcp A4 A5 E Hfw Hpath Hed Hc1 Hc2 HR Hjf Hn Hfit).
Qed.
Print Assumptions klunok_editor_always_queued.

(* a whole run that returned without an exit item has the [loaded] of the
   theorems above, and its notifications were dispatched from it *)
Theorem klunok_run_loaded (env : Main.env) (cfg : config) (rev : bool) (ns : list notif)
        (o : oracle) (w : world) outs w' :
  klunok env cfg rev ns o w = (Some outs, w') -> no_exit outs ->
  exists h w1 outs2 h',
    loaded env cfg o w = Some (h, w1) /\
    daemon_loop (e_self env) rev ns 0%Z h o w1 = (Some (outs2, h'), w').
Proof.
  intros E Hne.
  destruct (klunok_no_exit_inv env cfg rev ns o w outs w' E Hne)
    as (pre & cfgp & cpl & u & g & h & w1 & outs2 & h' & _ & _ & _ & _ & El & Ed & _).
  exists h, w1, outs2, h'. split; assumption.
Qed.
Print Assumptions klunok_run_loaded.

(* ====================================================================== *)
(* The theorems on KlunokExample's run                                    *)
(* ====================================================================== *)

Module LiftExample.
  Import MixedExample KlunokExample.
  Local Open Scope char_scope.

  (* klunok -c /h/c -w /h -e / -d /h as uid 1000; pid 7 executes /b/vim, pid 7
     closes /h/a after writing, the clock moves to 106 s, poll times out; every
     transfer cut into pieces of at most 2 bytes (o2, benign). *)

  Example cfg_of_ns : cfg_of_notifs 1 (Some p_c) cfgM ns = cfgM.
  Proof. reflexivity. Qed.

  (* (1) through the theorem: the handler at the end of the whole run *)
  Example config_by_theorem :
    exists h',
      (exists outs2, daemon_loop 1 false ns 0%Z hM o2 w_L = (Some (outs2, h'), w_R)) /\
      cfg_in_force (Some p_c) cfgM (steps_of 1 false ns) = cfgM /\
      h_cfg h' = cfgM /\ q_deb (h_q h') = 5%Z /\ q_dir (h_q h') = p_q /\
      journal_of cfgM (h_journal h') /\ h_cfg_path h' = Some p_c /\ h_cpl h' = 3%nat.
  Proof.
    destruct (klunok_config_in_force env_user cfgM false ns o2 w0 _ _ ns_envs_ok run_eq outs_no_exit)
      as (pre & cfgp & cpl & u & g & h & w1 & outs2 & h' & Es & El & _ & _ & _ & Ed & _ & D).
    rewrite startup_user in Es. injection Es as <- <- <- <- <-.
    rewrite load_eq in El. apply pair_equal_spec in El. destruct El as [E1 E2]. injection E1 as <-. subst w1.
    change (e_self env_user) with 1 in *. cbv zeta in D. rewrite cfg_of_ns in D.
    destruct D as (D0 & D1 & D2 & D3 & D4 & D5 & D6).
    exists h'. split; [exists outs2; exact Ed|]. split; [symmetry; exact D0|]. auto 10.
  Qed.

  (* (2) the loop head after the two events of ns1 *)
  Definition st_ns1 := daemon_state 1 false o2 ns1 0%Z hM w_L.
  Definition hp2 : handler := match st_ns1 with Some (_, x, _) => x | None => hM end.
  Definition wp2 : world := match st_ns1 with Some (_, _, x) => x | None => w_L end.
  Lemma st_ns1_eq : daemon_state 1 false o2 ns1 0%Z hM w_L = Some (5%Z, hp2, wp2).
  Proof. vm_compute. reflexivity. Qed.

  Lemma loaded_eq : loaded env_user cfgM o2 w0 = Some (hM, w_L).
  Proof. vm_compute. reflexivity. Qed.

  Lemma cfg_path_eq : startup_cfg_path env_user = Some p_c.
  Proof. vm_compute. reflexivity. Qed.

  Lemma ns1_no_cfg : no_cfg_event (Some p_c) ns1.
  Proof.
    intros e path nc [Hin|[Hin|[]]]; injection Hin as <- <- <-; intros X; vm_compute in X; discriminate X.
  Qed.

  Example editor_at_ns1 :
    is_editor_at (c_editors cfgM) (events_along 1 false o2 ns1 hM w_L) 7 = true /\
    is_editor_at (c_editors cfgM) (events_along 1 false o2 ns1 hM w_L) 9 = false.
  Proof. vm_compute. split; reflexivity. Qed.

  (* through the general form *)
  Example attribution_by_theorem :
    pid_mem 7 (h_pids hp2) = true /\ pid_mem 9 (h_pids hp2) = false /\ h_cfg hp2 = cfgM /\ okw wp2 = true.
  Proof.
    destruct (klunok_heads_track_attribution env_user cfgM false ns1 o2 w0 hM w_L 5%Z hp2 wp2
                o2_benign loaded_eq I) as (T & _ & (A & _) & K).
    - rewrite cfg_path_eq. exact ns1_no_cfg.
    - exact st_ns1_eq.
    - destruct editor_at_ns1 as [E7 E9]. change (e_self env_user) with 1 in T.
      split; [rewrite T; exact E7|]. split; [rewrite T; exact E9|]. split; [exact A|exact K].
  Qed.

  (* through the run form: ns = ns1 ++ [NEnv wE; NWake] *)
  Example attribution_by_run_theorem :
    pid_mem 7 (h_pids hp2) = true /\ pid_mem 9 (h_pids hp2) = false.
  Proof.
    destruct (klunok_tracks_attribution env_user cfgM false ns o2 w0 _ _ o2_benign ns_envs_ok run_eq outs_no_exit)
      as (pre & cfgp & cpl & u & g & h & w1 & outs2 & h' & Es & El & _ & _ & _ & _ & _ & _ & _ & D).
    rewrite startup_user in Es. injection Es as <- <- <- <- <-.
    rewrite load_eq in El. apply pair_equal_spec in El. destruct El as [E1 E2]. injection E1 as <-. subst w1.
    change (e_self env_user) with 1 in D.
    destruct (D ns1 [NEnv wE; NWake] 5%Z hp2 wp2 eq_refl ns1_no_cfg st_ns1_eq) as (T & _).
    destruct editor_at_ns1 as [E7 E9]. split; rewrite T; assumption.
  Qed.
  (* (3) the loop head after the exec of vim; the next notification is a write
     of /h/a by pid 9 (never an editor), or by pid 7 (an editor) *)
  Definition pre1 : list notif := [NEvent (ev_x 7) p_vim None].
  Definition st_1 := daemon_state 1 false o2 pre1 0%Z hM w_L.
  Definition hp1 : handler := match st_1 with Some (_, x, _) => x | None => hM end.
  Definition wp1 : world := match st_1 with Some (_, _, x) => x | None => w_L end.
  Lemma st_1_eq : daemon_state 1 false o2 pre1 0%Z hM w_L = Some ((-1)%Z, hp1, wp1).
  Proof. vm_compute. reflexivity. Qed.

  Lemma pre1_no_cfg : no_cfg_event (Some p_c) pre1.
  Proof. intros e path nc [Hin|[]]. injection Hin as <- <- <-. intros X. vm_compute in X. discriminate X. Qed.

  Lemma free1 k : lookup (w_fs wp1) (join p_q (dec k)) = None.
  Proof.
    unfold lookup.
    destruct (str_eqb_spec (join p_q (dec k)) root_path) as [E|_].
    { exfalso. revert E. apply join_dec_nonroot. discriminate. }
    rewrite (join_nonroot p_q (dec k)) by discriminate.
    let d := eval vm_compute in (fs_dents (w_fs wp1)) in change (fs_dents (w_fs wp1)) with d.
    unfold p_q. cbn [alookup app].
    repeat (destruct (str_eqb_spec _ _) as [E|_]; [discriminate E|]). reflexivity.
  Qed.

  Lemma qp1_rel : QRel (h_q hp1) (w_fs wp1) [].
  Proof.
    assert (Eq : h_q hp1 = mkQ p_q 0 0 (q_deb (h_q hM)) (q_len_guess (h_q hM)) []) by (vm_compute; reflexivity).
    rewrite Eq. apply QRel_empty; [discriminate | vm_compute; reflexivity | exact free1].
  Qed.

  Example non_editor_by_theorem :
    exists w2,
      dispatch_of 1 (NEvent (ev_w 9) p_a None) hp1 o2 wp1 = (Some hp1, w2) /\
      QRel (h_q hp1) (w_fs w2) [] /\ fs_dents (w_fs w2) = fs_dents (w_fs wp1) /\ okw w2 = true.
  Proof.
    destruct (klunok_non_editor_never_queued env_user cfgM false pre1 o2 w0 (ev_w 9) p_a None hM w_L (-1)%Z hp1 wp1 []
                o2_benign loaded_eq I) as (w2 & E1 & HR & D & K1 & _).
    - rewrite cfg_path_eq. exact pre1_no_cfg.
    - exact st_1_eq.
    - repeat split. intros X. discriminate X.
    - intros X. vm_compute in X. discriminate X.
    - vm_compute. reflexivity.
    - intros X. vm_compute in X. discriminate X.
    - intros X. vm_compute in X. discriminate X.
    - exact qp1_rel.
    - apply jfits_at; vm_compute; reflexivity.
    - exists w2. auto.
  Qed.
End LiftExample.

Print Assumptions LiftExample.config_by_theorem.
Print Assumptions LiftExample.attribution_by_theorem.
Print Assumptions LiftExample.attribution_by_run_theorem.
Print Assumptions LiftExample.non_editor_by_theorem.
