(* C18 Command line, watch roots, common parent and mounts behave as documented.
   (grammar equivalence, common-parent and mount theorems: ParamsProofs, when integrated) *)
From K Require Import Str Main MainProofs.

(* a malformed command line is rejected before anything is mounted or watched *)
Theorem C18_malformed_no_side_effect : forall (env : env) (e : perr),
  parse_params (e_args env) = inl e -> main env = [OExit 1 (Some T_parse)].
Proof. intros env e H. unfold main. rewrite H. reflexivity. Qed.
Print Assumptions C18_malformed_no_side_effect.

(* defaults: current directory for writes and privilege dropping, / for executions *)
Theorem C18_defaults : parse_params [] = inr (mkP false false None (Some dot_str) [dot_str] [root_str]).
Proof. reflexivity. Qed.
Print Assumptions C18_defaults.
