(* C18 Command line, watch roots, common parent and mounts behave as documented. *)
From K Require Import Str Main MainProofs ParamsProofs.

(* The parser accepts exactly the documented language
     [-h | -v | -c PATH | -d PATH | -w PATH | -e PATH]...
   with -c and -d at most once and -h / -v ending the scan, and yields exactly its
   denotation: the configuration and privilege-dropping paths (default "."), the
   write roots (default ".") and exec roots (default "/"), help/version. *)
Theorem C18_parse_iff_valid : forall (args : list str) (p : params),
  parse_params args = inr p <->
  exists its rest, args = items_args its ++ rest /\ cmdline its rest /\ p = denote its.
Proof. exact parse_params_iff. Qed.
Print Assumptions C18_parse_iff_valid.

(* every other command line is rejected, with the matching reason *)
Theorem C18_reject_iff_invalid : forall (args : list str) (e : perr),
  parse_params args = inl e <->
  exists its rest, args = items_args its ++ rest /\ nostop its /\ valid_items its /\ parse_failure its rest e.
Proof. exact parse_params_error_iff. Qed.
Print Assumptions C18_reject_iff_invalid.

(* ... before anything is mounted or watched *)
Theorem C18_malformed_no_side_effect : forall (env : env) (e : perr),
  parse_params (e_args env) = inl e -> main env = [OExit 1 (Some T_parse)].
Proof. exact parse_error_no_effect. Qed.
Print Assumptions C18_malformed_no_side_effect.

(* relative names are taken relative to the deepest directory containing the
   roots: for canonical paths the offset is 1 when only "/" is common, else the
   length of the longest common component prefix (as a path) + 1 *)
Theorem C18_common_parent : forall (ca cb : list str),
  Forall comp_ok ca -> Forall comp_ok cb ->
  common_len (path_of ca) (path_of cb) =
  match lcp ca cb with [] => 1 | l => S (length (path_of l)) end.
Proof. exact common_len_components. Qed.
Print Assumptions C18_common_parent.

Theorem C18_lcp_is_greatest_common_prefix : forall (ca cb : list str),
  exists ra rb, ca = lcp ca cb ++ ra /\ cb = lcp ca cb ++ rb /\
                match ra, rb with x :: _, y :: _ => x <> y | _, _ => True end.
Proof. exact lcp_spec. Qed.
Print Assumptions C18_lcp_is_greatest_common_prefix.

(* a directory is bind-mounted onto itself exactly when it is not already a
   mount point (a root given twice is mounted once), and every root is watched *)
Theorem C18_mount_iff_not_mounted :
  forall (is_exec : bool) (env : env) (roots mounted : list str) (n : nat) (prev : option str) (cpl : nat)
         (evs : list out) (mounted' : list str) (n' cpl' : nat),
  mark_roots is_exec env roots mounted n prev cpl = (evs, true, mounted', n', cpl') ->
  forall r m, In r roots -> assoc r (e_realpath env) = Some m ->
    In (OMark is_exec m) evs /\
    (In (OMount m) evs <-> memstr m mounted = false) /\
    mount_count m evs <= 1.
Proof. exact mount_iff_not_mounted. Qed.
Print Assumptions C18_mount_iff_not_mounted.

Theorem C18_defaults : parse_params [] = inr (mkP false false None (Some dot_str) [dot_str] [root_str]).
Proof. reflexivity. Qed.
Print Assumptions C18_defaults.
