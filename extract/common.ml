(* Model-side driver: reads the same scripts as the C drivers and prints the
   same observation lines, evaluating the definitions extracted from Coq. *)
module ZA = Z   (* zarith, before Model's own Z module shadows it *)
open Model

(* ---------- conversions ---------- *)
let rec nat_of_int (i : int) : nat = if i <= 0 then O else S (nat_of_int (i - 1))
let rec int_of_nat (n : nat) : int = match n with O -> 0 | S m -> 1 + int_of_nat m

let rec pos_of_z (z : ZA.t) : positive =
  if ZA.equal z ZA.one then XH
  else if ZA.is_even z then XO (pos_of_z (ZA.shift_right z 1))
  else XI (pos_of_z (ZA.shift_right z 1))
let rec z_of_pos (p : positive) : ZA.t =
  match p with
  | XH -> ZA.one
  | XO q -> ZA.shift_left (z_of_pos q) 1
  | XI q -> ZA.succ (ZA.shift_left (z_of_pos q) 1)
let n_of_z (z : ZA.t) : n = if ZA.sign z <= 0 then N0 else Npos (pos_of_z z)
let z_of_n (x : n) : ZA.t = match x with N0 -> ZA.zero | Npos p -> z_of_pos p
let n_of_string s = n_of_z (ZA.of_string s)
let string_of_n x = ZA.to_string (z_of_n x)

let chars_of_string (s : string) : char list = List.init (String.length s) (String.get s)
let string_of_chars (l : char list) : string =
  let b = Buffer.create 16 in List.iter (Buffer.add_char b) l; Buffer.contents b

(* strings in scripts: 'h' followed by hex digits *)
let unhex (t : string) : string =
  if String.length t = 0 || t.[0] <> 'h' then failwith ("bad hex token: " ^ t);
  let n = (String.length t - 1) / 2 in
  String.init n (fun i -> Char.chr (int_of_string ("0x" ^ String.sub t (1 + 2 * i) 2)))
let hex (s : string) : string =
  let b = Buffer.create 16 in
  Buffer.add_char b 'h';
  String.iter (fun c -> Buffer.add_string b (Printf.sprintf "%02x" (Char.code c))) s;
  Buffer.contents b
let str_tok t = chars_of_string (unhex t)
let tok_str l = hex (string_of_chars l)

let split_ws (l : string) : string list =
  List.filter (fun s -> s <> "") (String.split_on_char ' ' l)

let iter_lines (f : string list -> unit) =
  try
    while true do
      let l = input_line stdin in
      let toks = split_ws l in
      if toks <> [] then f toks
    done
  with End_of_file -> ()


let z_of_int i = ZA.of_int i
let coqz_of_z (z : ZA.t) : Model.z =
  if ZA.sign z = 0 then Z0 else if ZA.sign z > 0 then Zpos (pos_of_z z) else Zneg (pos_of_z (ZA.neg z))
let z_of_coqz (x : Model.z) : ZA.t =
  match x with Z0 -> ZA.zero | Zpos p -> z_of_pos p | Zneg p -> ZA.neg (z_of_pos p)
let coqz_of_string s = coqz_of_z (ZA.of_string s)
let string_of_coqz x = ZA.to_string (z_of_coqz x)

