open Drivers
open World

let () =
  match Sys.argv with
  | [| _; "set" |] -> drv_set ()
  | [| _; "linq" |] -> drv_linq ()
  | [| _; "sieve" |] -> drv_sieve ()
  | [| _; "world" |] -> drv_world ()
  | [| _; "pure" |] -> drv_pure ()
  | [| _; "main" |] -> drv_main ()
  | [| _; "cfg" |] -> drv_cfg ()
  | _ -> prerr_endline "usage: modeldrv <driver>"; exit 2
