(* world driver, model side *)
open Model
open Common

let msg_text (m : msg) : string =
  match m with
  | M_ts_overflow -> "A version string exceeds the size limit"
  | M_cannot_remove_ancestor -> "Cannot remove an ancestor directory"
  | M_cannot_create_ancestor -> "Cannot create an ancestor directory"
  | M_not_regular -> "Cannot copy a file that is not a regular file"
  | M_src_missing -> "The file does not exist"
  | M_src_denied -> "Permission denied"
  | M_dst_exists -> "The destination already exists"
  | M_invalid_entry -> "The queue contains an invalid entry"
  | M_version_slashes -> "Slash characters found in a version string"
  | M_cfg_cannot_load -> "Cannot load the configuration file"
  | M_cfg_cannot_reload -> "Cannot reload the configuration file"
  | M_linq_cannot_load -> "Cannot load the debouncing link queue"
  | M_linq_cannot_reload -> "Cannot reload the debouncing link queue"
  | M_linq_cannot_get_head -> "Cannot get the head of the debouncing link queue"
  | M_linq_cannot_push -> "Cannot push a file to the debouncing link queue"
  | M_store_cannot_copy -> "Cannot copy a file to the store"
  | M_journal_cannot_open -> "Cannot open the journal"
  | M_journal_cannot_write -> "Cannot write to the journal"
  | M_cannot_handle_exec -> "Cannot handle a file execution event"
  | M_cannot_handle_write -> "Cannot handle a file write event"
  | M_cannot_handle_timeout -> "Cannot handle the periodical tasks"

let errno_name (e : errno) : string =
  match e with
  | ENOENT -> "ENOENT" | EEXIST -> "EEXIST" | EACCES -> "EACCES" | ENOTEMPTY -> "ENOTEMPTY"
  | ENOTDIR -> "ENOTDIR" | EISDIR -> "EISDIR" | EIO -> "EIO" | ENOSPC -> "ENOSPC"
  | EMFILE -> "EMFILE" | ENOMEM -> "ENOMEM" | EINVAL -> "EINVAL" | EOTHER -> "EOTHER"

let errno_text (e : errno) : string =
  match e with
  | ENOENT -> "No such file or directory" | EEXIST -> "File exists" | EACCES -> "Permission denied"
  | ENOTEMPTY -> "Directory not empty" | ENOTDIR -> "Not a directory" | EISDIR -> "Is a directory"
  | EIO -> "Input/output error" | ENOSPC -> "No space left on device" | EMFILE -> "Too many open files"
  | ENOMEM -> "Cannot allocate memory" | EINVAL -> "Invalid argument" | EOTHER -> "*"

let errno_of_name (s : string) : errno =
  match s with
  | "ENOENT" -> ENOENT | "EEXIST" -> EEXIST | "EACCES" -> EACCES | "ENOTEMPTY" -> ENOTEMPTY
  | "ENOTDIR" -> ENOTDIR | "EISDIR" -> EISDIR | "EIO" -> EIO | "ENOSPC" -> ENOSPC
  | "EMFILE" -> EMFILE | "ENOMEM" -> ENOMEM | "EINVAL" -> EINVAL | _ -> EIO

let root = ref ""

let canon (p : char list) : string =
  let s = string_of_chars p in
  let rl = String.length !root in
  if rl > 0 && String.length s >= rl && String.sub s 0 rl = !root then "$" ^ String.sub s rl (String.length s - rl)
  else s

let s_ = string_of_chars
let i_ n = string_of_int (int_of_nat n)

let render_call (c : call) : string =
  match c with
  | COpenR p -> "open " ^ canon p ^ " R"
  | COpenExcl p -> "open " ^ canon p ^ " W|CREAT|EXCL"
  | COpenW p -> "open " ^ canon p ^ " W|CREAT"
  | COpenA p -> "open " ^ canon p ^ " W|CREAT|APPEND"
  | COpenDir p -> "open " ^ canon p ^ " R|DIR"
  | CClose -> "close"
  | CRead n -> "read " ^ i_ n
  | CReadN n -> "read " ^ string_of_n n
  | CWrite n -> "write " ^ i_ n
  | CSendfile (off, n) -> "sendfile off=" ^ i_ off ^ " " ^ i_ n
  | CMkdir p -> "mkdir " ^ canon p
  | CMkdirat (_, p) -> "mkdirat " ^ canon p
  | CRmdir p -> "rmdir " ^ canon p
  | CUnlink p -> "unlink " ^ canon p
  | CUnlinkat (_, n) -> "unlinkat " ^ canon n
  | CLink (a, b) -> "link " ^ canon a ^ " " ^ canon b
  | CLinkat (a, _, b) -> "linkat " ^ canon a ^ " " ^ canon b
  | CSymlinkat (t, _, n) -> "symlinkat " ^ canon t ^ " " ^ s_ n
  | CReadlinkat (_, n, sz) -> "readlinkat " ^ s_ n ^ " " ^ i_ sz
  | CFstat -> "fstat"
  | CFstatat (_, n) -> "fstatat " ^ s_ n
  | CAccess p -> "access " ^ canon p
  | CFtruncate -> "ftruncate"
  | CScandir p -> "scandir " ^ canon p
  | CFtsOpen p -> "fts_open " ^ canon p

let call_name (c : call) : string =
  let r = render_call c in
  match String.index_opt r ' ' with Some i -> String.sub r 0 i | None -> r

let render_log (idx : int) ((c, r) : call * ret) : string =
  match r with
  | RFault e -> Printf.sprintf "%d %s FAULT -> -1 %s" idx (call_name c) (errno_name e)
  | RInt z -> Printf.sprintf "%d %s -> %s" idx (render_call c) (string_of_coqz z)
  | RFd -> Printf.sprintf "%d %s -> fd" idx (render_call c)
  | ROk -> Printf.sprintf "%d %s -> ok" idx (render_call c)
  | RErr e -> Printf.sprintf "%d %s -> -1 %s" idx (render_call c) (errno_name e)

let render_frame (f : frame) : string =
  match f with
  | FStatic m -> "M:" ^ hex (msg_text m)
  | FErrno e -> "M:" ^ hex (errno_text e)
  | FDyn _ -> "M:" ^ hex "*"
  | FContext s -> "W:" ^ hex (s_ s)

(* ---------- configuration definitions ---------- *)
let opt_tok t = if t = "-" then None else Some (str_tok t)
let set_tok t = if t = "-" then [] else List.map str_tok (String.split_on_char ',' t)

let parse_cfg (kvs : string list) : config =
  let tbl = Hashtbl.create 32 in
  List.iter (fun kv ->
    match String.index_opt kv '=' with
    | Some i -> Hashtbl.replace tbl (String.sub kv 0 i) (String.sub kv (i + 1) (String.length kv - i - 1))
    | None -> ()) kvs;
  let g k = try Hashtbl.find tbl k with Not_found -> "-" in
  let gs k = match opt_tok (g k) with Some s -> s | None -> [] in
  let gi k = try int_of_string (g k) with _ -> 0 in
  { c_editors = set_tok (g "editors");
    c_rules = { r_cluded = set_tok (g "cluded"); r_included = set_tok (g "included");
                r_excluded = set_tok (g "excluded"); r_history = set_tok (g "history");
                r_project = set_tok (g "project_roots"); r_project_parent = set_tok (g "project_parents") };
    c_store_root = gs "store"; c_project_store_root = gs "pstore"; c_unstable_root = gs "unstable";
    c_queue_path = gs "queue"; c_journal_path = opt_tok (g "journal"); c_offset_root = gs "offsets";
    c_journal_pattern = gs "jpat"; c_version_pattern = gs "vpat";
    c_debounce = coqz_of_z (ZA.of_int (gi "deb"));
    c_queue_size_guess = nat_of_int (gi "qguess"); c_path_length_guess = nat_of_int (gi "plen");
    c_ev_exec_not_editor = opt_tok (g "ev0"); c_ev_exec_editor = opt_tok (g "ev1");
    c_ev_write_not_by_editor = opt_tok (g "ev2"); c_ev_write_by_editor = opt_tok (g "ev3");
    c_ev_deleted = opt_tok (g "ev4"); c_ev_forbidden = opt_tok (g "ev5"); c_ev_stored = opt_tok (g "ev6") }

(* ---------- environment steps on the model file system ---------- *)
let rec mkdirs (f : fs) (p : char list) : fs =
  List.fold_left (fun f d -> snd (fs_mkdir d f)) f (parents_of p)

let env_put (f : fs) (p : char list) (content : char list) (append : bool) : fs =
  let f = mkdirs f p in
  match lookup f p with
  | Some (NFile i) ->
      let x = get_file f i in
      set_file i { f_bytes = (if append then x.f_bytes @ content else content); f_readable = x.f_readable } f
  | Some _ -> f
  | None ->
      (match fs_create_excl p f with
       | (Inl (FdFile i), f') -> fs_append i content f'
       | (_, f') -> f')

let fnv (s : string) : string =
  let h = ref 0xcbf29ce484222325L in
  String.iter (fun c ->
    h := Int64.logxor !h (Int64.of_int (Char.code c));
    h := Int64.mul !h 1099511628211L) s;
  Printf.sprintf "%016Lx" !h

let dump (f : fs) =
  let rl = String.length !root in
  let ents = List.filter_map (fun (p, n) ->
    let s = s_ p in
    if String.length s > rl && String.sub s 0 rl = !root then Some (s, n) else None) f.fs_dents in
  let ents = List.sort (fun (a, _) (b, _) -> compare a b) ents in
  let seen = ref [] in
  List.iter (fun (s, n) ->
    let rel = String.sub s rl (String.length s - rl) in
    match n with
    | NDir -> Printf.printf "D %s dir\n" (hex rel)
    | NLink (t, m) -> Printf.printf "D %s link %s %s\n" (hex rel) (tok_str t) (string_of_coqz m)
    | NFile i ->
        let ino = int_of_nat i in
        let cls =
          (match List.assoc_opt ino !seen with
           | Some c -> c
           | None -> let c = List.length !seen in seen := !seen @ [(ino, c)]; c) in
        let x = get_file f i in
        let bytes = s_ x.f_bytes in
        Printf.printf "D %s file i%d %d %s %c %s\n" (hex rel) cls (String.length bytes) (fnv bytes)
          (if x.f_readable then 'r' else '-') (if String.length bytes <= 4096 then hex bytes else "-")) ents;
  print_endline "dump-end"

(* ---------- the driver ---------- *)
let clock0 = coqz_of_z (ZA.of_int 1000000)

let drv_world () =
  let cfgs : (string, config) Hashtbl.t = Hashtbl.create 8 in
  let bind : string option ref = ref None in     (* what the configuration file currently parses to *)
  let w = ref { w_fs = fs_empty; w_n = O; w_log = []; w_clock = clock0; w_tr = tr_empty } in
  let h : handler option ref = ref None in
  let crashed = ref false in
  let orc : (int -> fault) ref = ref (fun _ -> FNone) in
  let chunk = ref 0 in
  let log_on = ref false in
  let ftsrev = ref false in
  (* what realpath(3) does to the spelling of an absolute path without symbolic links: "//", "/./" and "/x/../" go *)
  let canon_path (p : char list) : char list =
    let s = String.concat "" (List.map (String.make 1) p) in
    if String.length s = 0 || s.[0] <> '/' then p else
    let parts = String.split_on_char '/' s in
    let rec go acc = function
      | [] -> List.rev acc
      | "" :: r | "." :: r -> go acc r
      | ".." :: r -> go (match acc with [] -> [] | _ :: t -> t) r
      | x :: r -> go (x :: acc) r in
    let c = "/" ^ String.concat "/" (go [] parts) in
    List.init (String.length c) (String.get c) in
  let start_args = ref ("", 0, "") in
  let oracle_fn () : (nat -> fault) =
    let o = !orc and ch = !chunk in
    (fun n -> match o (int_of_nat n) with
              | FNone -> if ch > 0 then FChunk (nat_of_int ch) else FNone
              | x -> x) in
  let begin_op () = w := { !w with w_n = O; w_log = [] } in
  let end_op name result =
    Printf.printf "op %s %s\n" name result;
    (match (!w).w_tr.t_frames with
     | [] -> print_endline "trace ok"
     | fr -> Printf.printf "trace %s\n" (String.concat " " (List.map render_frame fr)));
    Printf.printf "calls %d\n" (int_of_nat (!w).w_n);
    if !log_on then
      List.iteri (fun i e -> Printf.printf "L %s\n" (render_log i e)) (List.rev (!w).w_log);
    orc := (fun _ -> FNone);
    w := { !w with w_tr = tr_empty } in
  let run_op : 'a. string -> 'a Model.m -> ('a -> string) -> 'a option = fun name m show ->
    begin_op ();
    let (r, w') = m (oracle_fn ()) !w in
    w := w';
    (match r with
     | None ->
         (* the process died: memory is gone, the disk stays *)
         Printf.printf "crashed %s at %d\n" name (int_of_nat w'.w_n);
         h := None; crashed := true;
         orc := (fun _ -> FNone);
         w := { !w with w_tr = tr_empty }
     | Some a -> end_op name (show a));
    r in
  let setfs f = w := { !w with w_fs = f } in
  let current_cfg () = match !bind with Some id -> (try Some (Hashtbl.find cfgs id) with Not_found -> None) | None -> None in
  iter_lines (fun toks ->
    match toks with
    | "case" :: _ ->
        print_endline (String.concat " " toks);
        w := { w_fs = fs_empty; w_n = O; w_log = []; w_clock = clock0; w_tr = tr_empty };
        (* the sandbox root exists *)
        h := None; crashed := false; orc := (fun _ -> FNone); chunk := 0; log_on := false; ftsrev := false;
        bind := None; Hashtbl.reset cfgs
    | ["root"; r] ->
        root := unhex r;
        setfs (snd (fs_mkdir (chars_of_string !root) (mkdirs (!w).w_fs (chars_of_string !root))))
    | ["clock"; n] -> w := { !w with w_clock = coqz_of_string n }
    | ["log"; v] -> log_on := (v = "on")
    | ["ftsrev"; v] -> ftsrev := (v = "1")
    | "cfg" :: id :: kvs -> Hashtbl.replace cfgs id (parse_cfg kvs)
    | ["cfgbind"; id] -> bind := (if id = "invalid" then None else Some id)
    | ["tick"; n] -> w := { !w with w_clock = coqz_of_z (ZA.add (z_of_coqz (!w).w_clock) (ZA.of_string n)) }
    | ["chunk"; n] -> chunk := int_of_string n
    | ["nofile"; _] -> ()   (* the descriptor limit of the implementation's process: no counterpart in the model *)
    | "oracle" :: kind :: rest ->
        (match kind, rest with
         | "crash", [k] -> let k = int_of_string k in orc := (fun i -> if i = k then FCrash else FNone)
         | "fail", [k; e] -> let k = int_of_string k in let e = errno_of_name e in
                             orc := (fun i -> if i = k then FFail e else FNone)
         | "short", [k; n] -> let k = int_of_string k in let n = nat_of_int (int_of_string n) in
                              orc := (fun i -> if i = k then FShort n else FNone)
         | "shortall", [n] -> let n = nat_of_int (int_of_string n) in orc := (fun _ -> FShort n)
         | _ -> orc := (fun _ -> FNone))
    | "put" :: p :: rest | "putforeign" :: p :: rest -> setfs (env_put (!w).w_fs (str_tok p) (match rest with c :: _ -> str_tok c | [] -> []) false)
    | "append" :: p :: rest -> setfs (env_put (!w).w_fs (str_tok p) (match rest with c :: _ -> str_tok c | [] -> []) true)
    | ["putn"; p; n; b] ->
        let n = int_of_string n and b = int_of_string b in
        let content = List.init n (fun i -> Char.chr (Char.code 'a' + (i * 7 + b) mod 26)) in
        setfs (env_put (!w).w_fs (str_tok p) content false)
    | ["symlink"; p; tg; mt] ->
        let p = str_tok p in
        (match fs_symlink p (str_tok tg) (coqz_of_string mt) (mkdirs (!w).w_fs p) with
         | (None, f) -> setfs f
         | (Some e, _) -> Printf.printf "env-error symlink %s\n" (errno_text e))
    | ["rm"; p] ->
        (match fs_unlink (str_tok p) (!w).w_fs with
         | (None, f) -> setfs f
         | (Some e, _) -> Printf.printf "env-error rm %s\n" (errno_text e))
    | ["mkdirp"; p] -> let p = str_tok p in setfs (snd (fs_mkdir p (mkdirs (!w).w_fs p)))
    | ["rmdir"; p] ->
        (match fs_rmdir (str_tok p) (!w).w_fs with
         | (None, f) -> setfs f
         | (Some e, _) -> Printf.printf "env-error rmdir %s\n" (errno_text e))
    | ["chmod"; p; m] ->
        let f = (!w).w_fs in
        (match lookup f (str_tok p) with
         | Some (NFile i) -> let x = get_file f i in setfs (set_file i { x with f_readable = (m <> "0") } f)
         | _ -> ())
    | ["start"; id; cpl; cp] ->
        start_args := (id, int_of_string cpl, cp);
        crashed := false;
        (match (try Some (Hashtbl.find cfgs id) with Not_found -> None) with
         | None -> failwith "start: unknown cfg"
         | Some cfg ->
             bind := Some id;
             (match run_op "start" (load_handler cfg (Some (canon_path (str_tok cp))) (nat_of_int (int_of_string cpl)))
                      (fun r -> match r with Some _ -> "ok" | None -> "error") with
              | Some r -> h := r
              | None -> ()))
    | ["stop"] ->
        (match !h with
         | Some hh -> ignore (run_op "stop" (free_handler hh) (fun () -> "ok")); h := None
         | None -> ())
    | ["exec"; pid; p] ->
        (match !h with
         | None -> Printf.printf "op exec nohandler\n"
         | Some hh ->
             (match run_op "exec" (fun o w0 ->
                       let (r, w1) = handle_open_exec (n_of_string pid) (str_tok p) hh o w0 in
                       (match r with Some h' -> (Some (h', tr_ok w1.w_tr), w1) | None -> (None, w1)))
                      (fun (_, okk) -> if okk then "ok" else "error") with
              | Some (h', _) -> h := Some h'
              | None -> ()))
    | ["write"; pid; p] ->
        (match !h with
         | None -> Printf.printf "op write nohandler\n"
         | Some hh ->
             (match run_op "write" (fun o w0 ->
                       let (r, w1) = handle_close_write (n_of_string pid) (str_tok p) (current_cfg ()) hh o w0 in
                       (match r with Some h' -> (Some (h', tr_ok w1.w_tr), w1) | None -> (None, w1)))
                      (fun (_, okk) -> if okk then "ok" else "error") with
              | Some (h', _) -> h := Some h'
              | None -> ()))
    | ["timeout"] ->
        (match !h with
         | None -> Printf.printf "op timeout nohandler\n"
         | Some hh ->
             (match run_op "timeout" (handle_timeout !ftsrev hh)
                      (fun (r, _) -> match r with TPause z -> "pause " ^ string_of_coqz z | TError -> "error") with
              | Some (_, h') -> h := Some h'
              | None -> ()))
    | ["dump"] -> dump (!w).w_fs
    | ["live"] -> ()
    | _ -> failwith ("world: bad line: " ^ String.concat " " toks))
