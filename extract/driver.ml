(* Model-side driver: reads the same scripts as the C drivers and prints the
   same observation lines, evaluating the definitions extracted from Coq. *)
module ZA = Z   (* zarith, before Model's own Z module shadows it *)
open Model

(* ---------- conversions ---------- *)
let rec nat_of_int (i : int) : nat = if i <= 0 then O else S (nat_of_int (i - 1))
let rec int_of_nat (n : nat) : int = match n with O -> 0 | S m -> 1 + int_of_nat m

let rec pos_of_z (z : ZA.t) : positive =
  if ZA.equal z ZA.one then XH
  else if ZA.is_even z then XO (pos_of_z (ZA.shift_right z 1))
  else XI (pos_of_z (ZA.shift_right z 1))
let rec z_of_pos (p : positive) : ZA.t =
  match p with
  | XH -> ZA.one
  | XO q -> ZA.shift_left (z_of_pos q) 1
  | XI q -> ZA.succ (ZA.shift_left (z_of_pos q) 1)
let n_of_z (z : ZA.t) : n = if ZA.sign z <= 0 then N0 else Npos (pos_of_z z)
let z_of_n (x : n) : ZA.t = match x with N0 -> ZA.zero | Npos p -> z_of_pos p
let n_of_string s = n_of_z (ZA.of_string s)
let string_of_n x = ZA.to_string (z_of_n x)

let chars_of_string (s : string) : char list = List.init (String.length s) (String.get s)
let string_of_chars (l : char list) : string =
  let b = Buffer.create 16 in List.iter (Buffer.add_char b) l; Buffer.contents b

(* strings in scripts: 'h' followed by hex digits *)
let unhex (t : string) : string =
  if String.length t = 0 || t.[0] <> 'h' then failwith ("bad hex token: " ^ t);
  let n = (String.length t - 1) / 2 in
  String.init n (fun i -> Char.chr (int_of_string ("0x" ^ String.sub t (1 + 2 * i) 2)))
let hex (s : string) : string =
  let b = Buffer.create 16 in
  Buffer.add_char b 'h';
  String.iter (fun c -> Buffer.add_string b (Printf.sprintf "%02x" (Char.code c))) s;
  Buffer.contents b
let str_tok t = chars_of_string (unhex t)
let tok_str l = hex (string_of_chars l)

let split_ws (l : string) : string list =
  List.filter (fun s -> s <> "") (String.split_on_char ' ' l)

let iter_lines (f : string list -> unit) =
  try
    while true do
      let l = input_line stdin in
      let toks = split_ws l in
      if toks <> [] then f toks
    done
  with End_of_file -> ()

(* ---------- set driver ---------- *)
let drv_set () =
  let s = ref (create_set O) in
  let bops = ref [] in
  iter_lines (fun toks ->
    match toks with
    | "case" :: _ -> print_endline (String.concat " " toks); bops := []
    | ["new"; g] -> s := create_set (nat_of_int (int_of_string g))
    | ["add"; v] -> s := set_add (str_tok v) !s
    | ["pop"; v] -> s := set_pop (str_tok v) !s
    | "q" :: vs ->
        let cs = List.map (fun v -> string_of_int (int_of_nat (get_count (str_tok v) !s))) vs in
        Printf.printf "cnt %s emp %d\n" (String.concat " " cs) (if is_empty !s then 1 else 0)
    | ["hash"; v] -> Printf.printf "hash %s\n" (string_of_n (hash (str_tok v)))
    | ["bnew"] -> bops := []
    | ["bchar"; v] -> bops := BChar (List.hd (str_tok v)) :: !bops
    | ["bstr"; v] -> bops := BStr (str_tok v) :: !bops
    | ["bset"; n] -> bops := BSetLen (nat_of_int (int_of_string n)) :: !bops
    | ["bhash"] -> bops := BHash :: !bops
    | ["bend"] ->
        let (hs, _) = buf_run (List.rev !bops) buf_empty in
        List.iter (fun h -> Printf.printf "bh %s\n" (string_of_n h)) hs;
        bops := []
    | _ -> failwith ("set: bad line: " ^ String.concat " " toks))

(* ---------- linq driver ---------- *)
let z_of_int i = ZA.of_int i
let coqz_of_z (z : ZA.t) : Model.z =
  if ZA.sign z = 0 then Z0 else if ZA.sign z > 0 then Zpos (pos_of_z z) else Zneg (pos_of_z (ZA.neg z))
let z_of_coqz (x : Model.z) : ZA.t =
  match x with Z0 -> ZA.zero | Zpos p -> z_of_pos p | Zneg p -> ZA.neg (z_of_pos p)
let coqz_of_string s = coqz_of_z (ZA.of_string s)
let string_of_coqz x = ZA.to_string (z_of_coqz x)

let clock0 = coqz_of_z (ZA.of_int 1000000)

let drv_linq () =
  let st = ref (linit Z0 O clock0) in
  let step o =
    let (s', outs) = lstep !st o in
    st := s';
    List.iter (fun o ->
      match o with
      | OPush PushOk -> print_endline "push ok"
      | OPush _ -> print_endline "push err"
      | OHead (HPause w) -> Printf.printf "head pause %s\n" (string_of_coqz w)
      | OHead (HReady (p, m)) -> Printf.printf "head ready %s %s\n" (tok_str p) (string_of_n m)
      | OHead HErr -> print_endline "head err"
      | OPop PopOk -> print_endline "pop ok"
      | OPop PopAbort -> print_endline "pop abort"
      | OPop PopErr -> print_endline "pop err") outs in
  iter_lines (fun toks ->
    match toks with
    | "case" :: _ -> print_endline (String.concat " " toks); st := linit Z0 O clock0
    | "lq_load" :: deb :: g :: _ ->
        st := linit (coqz_of_string deb) (nat_of_int (int_of_string g)) clock0;
        print_endline "load ok"
    | ["lq_reload"; g] -> step (LReload (nat_of_int (int_of_string g)))
    | ["lq_push"; p; m] -> step (LPush (str_tok p, n_of_string m))
    | ["lq_head"] -> step LHead
    | ["lq_pop"] -> step LPop
    | ["lq_redeb"; d] -> step (LRedeb (coqz_of_string d))
    | ["lq_tick"; n] -> step (LTick (coqz_of_string n))
    | ["lq_drain"] ->
        let s0 = !st in
        let ((outs, w), l') = drain_all s0.ls_now s0.ls_q in
        st := { s0 with ls_q = l' };
        List.iter (fun (p, m) -> Printf.printf "stored %s %s\n" (tok_str p) (string_of_n m)) outs;
        (match w with
         | Z0 -> print_endline "drain err"
         | _ -> Printf.printf "drain pause %s\n" (string_of_coqz w))
    | ["lq_dump"] ->
        let d = (!st).ls_q.l_dir in
        Printf.printf "dump %d" (List.length d);
        List.iter (fun (name, (tgt, mt)) ->
          Printf.printf " %s:%s:%s" (string_of_n name) (tok_str tgt) (string_of_coqz mt)) d;
        print_newline ()
    | _ -> failwith ("linq: bad line: " ^ String.concat " " toks))

let () =
  match Sys.argv with
  | [| _; "set" |] -> drv_set ()
  | [| _; "linq" |] -> drv_linq ()
  | _ -> prerr_endline "usage: modeldrv <driver>"; exit 2
