(* Model-side driver: reads the same scripts as the C drivers and prints the
   same observation lines, evaluating the definitions extracted from Coq. *)
open Model

(* ---------- conversions ---------- *)
let rec nat_of_int (i : int) : nat = if i <= 0 then O else S (nat_of_int (i - 1))
let rec int_of_nat (n : nat) : int = match n with O -> 0 | S m -> 1 + int_of_nat m

let rec pos_of_z (z : Z.t) : positive =
  if Z.equal z Z.one then XH
  else if Z.is_even z then XO (pos_of_z (Z.shift_right z 1))
  else XI (pos_of_z (Z.shift_right z 1))
let rec z_of_pos (p : positive) : Z.t =
  match p with
  | XH -> Z.one
  | XO q -> Z.shift_left (z_of_pos q) 1
  | XI q -> Z.succ (Z.shift_left (z_of_pos q) 1)
let n_of_z (z : Z.t) : n = if Z.sign z <= 0 then N0 else Npos (pos_of_z z)
let z_of_n (x : n) : Z.t = match x with N0 -> Z.zero | Npos p -> z_of_pos p
let n_of_string s = n_of_z (Z.of_string s)
let string_of_n x = Z.to_string (z_of_n x)

let chars_of_string (s : string) : char list = List.init (String.length s) (String.get s)
let string_of_chars (l : char list) : string =
  let b = Buffer.create 16 in List.iter (Buffer.add_char b) l; Buffer.contents b

(* strings in scripts: 'h' followed by hex digits *)
let unhex (t : string) : string =
  if String.length t = 0 || t.[0] <> 'h' then failwith ("bad hex token: " ^ t);
  let n = (String.length t - 1) / 2 in
  String.init n (fun i -> Char.chr (int_of_string ("0x" ^ String.sub t (1 + 2 * i) 2)))
let hex (s : string) : string =
  let b = Buffer.create 16 in
  Buffer.add_char b 'h';
  String.iter (fun c -> Buffer.add_string b (Printf.sprintf "%02x" (Char.code c))) s;
  Buffer.contents b
let str_tok t = chars_of_string (unhex t)
let tok_str l = hex (string_of_chars l)

let split_ws (l : string) : string list =
  List.filter (fun s -> s <> "") (String.split_on_char ' ' l)

let iter_lines (f : string list -> unit) =
  try
    while true do
      let l = input_line stdin in
      let toks = split_ws l in
      if toks <> [] then f toks
    done
  with End_of_file -> ()

(* ---------- set driver ---------- *)
let drv_set () =
  let s = ref (create_set O) in
  let bops = ref [] in
  iter_lines (fun toks ->
    match toks with
    | "case" :: _ -> print_endline (String.concat " " toks); bops := []
    | ["new"; g] -> s := create_set (nat_of_int (int_of_string g))
    | ["add"; v] -> s := set_add (str_tok v) !s
    | ["pop"; v] -> s := set_pop (str_tok v) !s
    | "q" :: vs ->
        let cs = List.map (fun v -> string_of_int (int_of_nat (get_count (str_tok v) !s))) vs in
        Printf.printf "cnt %s emp %d\n" (String.concat " " cs) (if is_empty !s then 1 else 0)
    | ["hash"; v] -> Printf.printf "hash %s\n" (string_of_n (hash (str_tok v)))
    | ["bnew"] -> bops := []
    | ["bchar"; v] -> bops := BChar (List.hd (str_tok v)) :: !bops
    | ["bstr"; v] -> bops := BStr (str_tok v) :: !bops
    | ["bset"; n] -> bops := BSetLen (nat_of_int (int_of_string n)) :: !bops
    | ["bhash"] -> bops := BHash :: !bops
    | ["bend"] ->
        let (hs, _) = buf_run (List.rev !bops) buf_empty in
        List.iter (fun h -> Printf.printf "bh %s\n" (string_of_n h)) hs;
        bops := []
    | _ -> failwith ("set: bad line: " ^ String.concat " " toks))

let () =
  match Sys.argv with
  | [| _; "set" |] -> drv_set ()
  | _ -> prerr_endline "usage: modeldrv <driver>"; exit 2
