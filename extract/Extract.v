(* Extraction of the executable models.  Only the directives shipped in
   ExtrOcamlBasic and ExtrOcamlString are used; nat, N, Z, positive stay the
   extracted datatypes.  Run from /verif/extract:
     coqc -Q ../coq K Extract.v *)
From Coq Require Import Extraction ExtrOcamlBasic ExtrOcamlString.
From K Require Import Str SetM Linq Sieve Dec Trace Fs World Progs Elf Handler Bitmap Main ConfigInst MountParse ElfSpec.
From K.generated Require Import ConfigStatic.
Extraction Blacklist String List Char Bool.
Set Extraction Optimize.
Extraction "model.ml"
  str_eqb
  hash buf_empty buf_run
  create_set set_add set_pop get_count is_empty set_run
  encode decode strip linit lstep lrun drain drain_all
  sieve decide project_root_end push_decision linq_meta
  dec undec tr_empty tr_ok fs_empty lookup get_file set_file fs_mkdir fs_rmdir fs_unlink fs_create_excl
  fs_append fs_symlink parents_of run no_faults
  load_handler free_handler handle_open_exec handle_close_write handle_timeout
  sync_file read_counter write_counter note get_file_extension create_store_path current_path increment
  get_elf_interpreter_raw mk_elf elf_interp_spec
  bm_create bm_set bm_unset bm_get attr_run
  parse_params common_len main
  parse_mounts parse_mounts_gen render_mounts
  klunok_load static_config.
