(* Extraction of the executable models.  Only the directives shipped in
   ExtrOcamlBasic and ExtrOcamlString are used; nat, N, Z, positive stay the
   extracted datatypes.  Run from /verif/extract:
     coqc -Q ../coq K Extract.v *)
From Coq Require Import Extraction ExtrOcamlBasic ExtrOcamlString.
From K Require Import Str SetM Linq.
Extraction Blacklist String List Char Bool.
Set Extraction Optimize.
Extraction "model.ml"
  str_eqb
  hash buf_empty buf_run
  create_set set_add set_pop get_count is_empty set_run
  encode decode strip linit lstep lrun drain drain_all.
