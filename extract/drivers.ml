open Model
open Common

(* ---------- set driver ---------- *)
let drv_set () =
  let s = ref (create_set O) in
  let bops = ref [] in
  iter_lines (fun toks ->
    match toks with
    | "case" :: _ -> print_endline (String.concat " " toks); bops := []
    | ["new"; g] -> s := create_set (nat_of_int (int_of_string g))
    | ["add"; v] -> s := set_add (str_tok v) !s
    | ["pop"; v] -> s := set_pop (str_tok v) !s
    | "q" :: vs ->
        let cs = List.map (fun v -> string_of_int (int_of_nat (get_count (str_tok v) !s))) vs in
        Printf.printf "cnt %s emp %d\n" (String.concat " " cs) (if is_empty !s then 1 else 0)
    | ["hash"; v] -> Printf.printf "hash %s\n" (string_of_n (hash (str_tok v)))
    | ["bnew"] -> bops := []
    | ["bchar"; v] -> bops := BChar (List.hd (str_tok v)) :: !bops
    | ["bstr"; v] -> bops := BStr (str_tok v) :: !bops
    | ["bset"; n] -> bops := BSetLen (nat_of_int (int_of_string n)) :: !bops
    | ["bhash"] -> bops := BHash :: !bops
    | ["bend"] ->
        let (hs, _) = buf_run (List.rev !bops) buf_empty in
        List.iter (fun h -> Printf.printf "bh %s\n" (string_of_n h)) hs;
        bops := []
    | _ -> failwith ("set: bad line: " ^ String.concat " " toks))

(* ---------- linq driver ---------- *)
let clock0 = coqz_of_z (ZA.of_int 1000000)

let drv_linq () =
  let st = ref (linit Z0 O clock0) in
  let step o =
    let (s', outs) = lstep !st o in
    st := s';
    List.iter (fun o ->
      match o with
      | OPush PushOk -> print_endline "push ok"
      | OPush _ -> print_endline "push err"
      | OHead (HPause w) -> Printf.printf "head pause %s\n" (string_of_coqz w)
      | OHead (HReady (p, m)) -> Printf.printf "head ready %s %s\n" (tok_str p) (string_of_n m)
      | OHead HErr -> print_endline "head err"
      | OPop PopOk -> print_endline "pop ok"
      | OPop PopAbort -> print_endline "pop abort"
      | OPop PopErr -> print_endline "pop err") outs in
  iter_lines (fun toks ->
    match toks with
    | "case" :: _ -> print_endline (String.concat " " toks); st := linit Z0 O clock0
    | "lq_load" :: deb :: g :: _ ->
        st := linit (coqz_of_string deb) (nat_of_int (int_of_string g)) clock0;
        print_endline "load ok"
    | ["lq_reload"; g] -> step (LReload (nat_of_int (int_of_string g)))
    | ["lq_push"; p; m] -> step (LPush (str_tok p, n_of_string m))
    | ["lq_head"] -> step LHead
    | ["lq_pop"] -> step LPop
    | ["lq_redeb"; d] -> step (LRedeb (coqz_of_string d))
    | ["lq_tick"; n] -> step (LTick (coqz_of_string n))
    | ["lq_drain"] ->
        let s0 = !st in
        let ((outs, w), l') = drain_all s0.ls_now s0.ls_q in
        st := { s0 with ls_q = l' };
        List.iter (fun (p, m) -> Printf.printf "stored %s %s\n" (tok_str p) (string_of_n m)) outs;
        (match w with
         | Z0 -> print_endline "drain err"
         | _ -> Printf.printf "drain pause %s\n" (string_of_coqz w))
    | ["lq_dump"] ->
        let d = (!st).ls_q.l_dir in
        Printf.printf "dump %d" (List.length d);
        List.iter (fun (name, (tgt, mt)) ->
          Printf.printf " %s:%s:%s" (string_of_n name) (tok_str tgt) (string_of_coqz mt)) d;
        print_newline ()
    | _ -> failwith ("linq: bad line: " ^ String.concat " " toks))

(* ---------- sieve driver ---------- *)
let set_tok t = if t = "-" then [] else List.map str_tok (String.split_on_char ',' t)
let opt_nat o = match o with None -> "-" | Some k -> string_of_int (int_of_nat k)

let drv_sieve () =
  iter_lines (fun toks ->
    match toks with
    | "case" :: _ -> print_endline (String.concat " " toks)
    | "sv" :: off :: path :: sets ->
        let (ends, dot) = sieve (str_tok path) (nat_of_int (int_of_string off)) (List.map set_tok sets) in
        Printf.printf "ends %s dot %s\n" (String.concat " " (List.map opt_nat ends)) (opt_nat dot)
    | _ -> failwith ("sieve: bad line: " ^ String.concat " " toks))


(* ---------- pure functions driver ---------- *)
let rec iter_n k f x = if k <= 0 then x else iter_n (k - 1) f (f x)

let drv_pure () =
  iter_lines (fun toks ->
    match toks with
    | "case" :: _ -> print_endline (String.concat " " toks)
    | ["ext"; p] -> Printf.printf "ext %s\n" (tok_str (get_file_extension (str_tok p)))
    | ["sp"; root; rel; ver; k] ->
        let sp = iter_n (int_of_string k) increment (create_store_path (str_tok root) (str_tok rel) (str_tok ver)) in
        Printf.printf "sp %s\n" (tok_str (current_path sp))
    | _ -> failwith ("pure: bad line: " ^ String.concat " " toks))
