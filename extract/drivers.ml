open Model
open Common

(* ---------- set driver ---------- *)
let drv_set () =
  let s = ref (create_set O) in
  let bops = ref [] in
  iter_lines (fun toks ->
    match toks with
    | "case" :: _ -> print_endline (String.concat " " toks); bops := []
    | ["new"; g] -> s := create_set (nat_of_int (int_of_string g))
    | ["add"; v] -> s := set_add (str_tok v) !s
    | ["addf"; _; v] -> s := set_add (str_tok v) !s; print_endline "addf ok"   (* allocation failures are outside the model *)
    | ["pop"; v] -> s := set_pop (str_tok v) !s
    | "q" :: vs ->
        let cs = List.map (fun v -> string_of_int (int_of_nat (get_count (str_tok v) !s))) vs in
        Printf.printf "cnt %s emp %d\n" (String.concat " " cs) (if is_empty !s then 1 else 0)
    | ["hash"; v] -> Printf.printf "hash %s\n" (string_of_n (hash (str_tok v)))
    | ["bnew"] -> bops := []
    | ["bchar"; v] -> bops := BChar (List.hd (str_tok v)) :: !bops
    | ["bstr"; v] -> bops := BStr (str_tok v) :: !bops
    | ["bset"; n] -> bops := BSetLen (nat_of_int (int_of_string n)) :: !bops
    | ["bhash"] ->
        bops := BHash :: !bops;
        let (hs, _) = buf_run (List.rev !bops) buf_empty in
        Printf.printf "bh %s\n" (string_of_n (List.nth hs (List.length hs - 1)))
    | ["bq"] ->
        (* the buffer's own view (with whatever hash it has cached) used as the key of a query *)
        let (_, b) = buf_run (List.rev !bops) buf_empty in
        Printf.printf "bc %d\n" (int_of_nat (get_count b.b_str !s))
    | ["bend"] -> bops := []
    | _ -> failwith ("set: bad line: " ^ String.concat " " toks))

(* ---------- linq driver ---------- *)
let clock0 = coqz_of_z (ZA.of_int 1000000)

let drv_linq () =
  let st = ref (linit Z0 O clock0) in
  let step o =
    let (s', outs) = lstep !st o in
    st := s';
    List.iter (fun o ->
      match o with
      | OPush PushOk -> print_endline "push ok"
      | OPush _ -> print_endline "push err"
      | OHead (HPause w) -> Printf.printf "head pause %s\n" (string_of_coqz w)
      | OHead (HReady (p, m)) -> Printf.printf "head ready %s %s\n" (tok_str p) (string_of_n m)
      | OHead HErr -> print_endline "head err"
      | OPop PopOk -> print_endline "pop ok"
      | OPop PopAbort -> print_endline "pop abort"
      | OPop PopErr -> print_endline "pop err") outs in
  iter_lines (fun toks ->
    match toks with
    | "case" :: _ -> print_endline (String.concat " " toks); st := linit Z0 O clock0
    | "lq_load" :: deb :: g :: _ ->
        st := linit (coqz_of_string deb) (nat_of_int (int_of_string g)) clock0;
        print_endline "load ok"
    | ["lq_reload"; g] -> step (LReload (nat_of_int (int_of_string g)))
    | ["lq_push"; p; m] ->
        (* environment fact outside the Gallina model: symlinkat refuses a target of PATH_MAX bytes or more;
           the push fails and the queue is unchanged *)
        if List.length (encode (n_of_string m) (str_tok p)) >= 4096 then print_endline "push err"
        else step (LPush (str_tok p, n_of_string m))
    | ["lq_head"] -> step LHead
    | ["lq_pop"] -> step LPop
    | ["lq_redeb"; d] -> step (LRedeb (coqz_of_string d))
    | ["lq_tick"; n] -> step (LTick (coqz_of_string n))
    | ["lq_drain"] ->
        let s0 = !st in
        let ((outs, w), l') = drain_all s0.ls_now s0.ls_q in
        st := { s0 with ls_q = l' };
        List.iter (fun (p, m) -> Printf.printf "stored %s %s\n" (tok_str p) (string_of_n m)) outs;
        (match w with
         | Z0 -> print_endline "drain err"
         | _ -> Printf.printf "drain pause %s\n" (string_of_coqz w))
    | ["lq_dump"] ->
        let d = (!st).ls_q.l_dir in
        Printf.printf "dump %d" (List.length d);
        List.iter (fun (name, (tgt, mt)) ->
          Printf.printf " %s:%s:%s" (string_of_n name) (tok_str tgt) (string_of_coqz mt)) d;
        print_newline ()
    | _ -> failwith ("linq: bad line: " ^ String.concat " " toks))

(* ---------- sieve driver ---------- *)
let set_tok t = if t = "-" then [] else List.map str_tok (String.split_on_char ',' t)
let opt_nat o = match o with None -> "-" | Some k -> string_of_int (int_of_nat k)

let drv_sieve () =
  iter_lines (fun toks ->
    match toks with
    | "case" :: _ -> print_endline (String.concat " " toks)
    | "sv" :: off :: path :: sets ->
        let (ends, dot) = sieve (str_tok path) (nat_of_int (int_of_string off)) (List.map set_tok sets) in
        Printf.printf "ends %s dot %s\n" (String.concat " " (List.map opt_nat ends)) (opt_nat dot)
    | _ -> failwith ("sieve: bad line: " ^ String.concat " " toks))


(* ---------- pure functions driver ---------- *)
let rec iter_n k f x = if k <= 0 then x else iter_n (k - 1) f (f x)

let drv_pure () =
  iter_lines (fun toks ->
    match toks with
    | "case" :: _ -> print_endline (String.concat " " toks)
    | ["ext"; p] -> Printf.printf "ext %s\n" (tok_str (get_file_extension (str_tok p)))
    | ["ctr"; v] -> Printf.printf "ctr %s\n" (string_of_n (undec (dec (n_of_string v))))
    | ["sp"; root; rel; ver; k] ->
        let sp = iter_n (int_of_string k) increment (create_store_path (str_tok root) (str_tok rel) (str_tok ver)) in
        Printf.printf "sp %s\n" (tok_str (current_path sp))
    | ["cpp"; a; b] -> Printf.printf "cpp %d\n" (int_of_nat (common_len (str_tok a) (str_tok b)))
    | "params" :: args ->
        (match parse_params (List.map str_tok args) with
         | Inl e ->
             let m = (match e with
                      | PUnknown _ -> "An unknown option has been passed"
                      | PRedefined _ -> "An option has been passed more than once, but it cannot have multiple values"
                      | PStray _ -> "An option without a required value has been passed") in
             Printf.printf "params error %s\n" (hex m)
         | Inr p ->
             let o x = match x with Some s -> tok_str s | None -> "-" in
             Printf.printf "params ok help=%d version=%d c=%s d=%s w=%s e=%s\n"
               (if p.p_help then 1 else 0) (if p.p_version then 1 else 0) (o p.p_cfg) (o p.p_drop)
               (String.concat "" (List.map (fun s -> tok_str s ^ ",") p.p_w))
               (String.concat "" (List.map (fun s -> tok_str s ^ ",") p.p_e)))
    | ["elfimg"; interp; phnum] ->
        (* model only: the image ElfSpec.mk_elf builds (the one C07_elf_image_roundtrip speaks about) and what the
           layout specification says of it *)
        let img = mk_elf (str_tok interp) (nat_of_int (int_of_string phnum)) in
        Printf.printf "elfimg %s %s\n" (tok_str img) (match elf_interp_spec img with Some s -> tok_str s | None -> "-")
    | ["elfspec"; img] ->
        Printf.printf "elfspec %s\n" (match elf_interp_spec (str_tok img) with Some s -> tok_str s | None -> "-")
    | "bm" :: g :: ops ->
        let b = ref (bm_create (nat_of_int (int_of_string g))) in
        let out = Buffer.create 16 in
        List.iter (fun o ->
          let bit = nat_of_int (int_of_string (String.sub o 1 (String.length o - 1))) in
          match o.[0] with
          | 's' -> b := bm_set bit !b
          | 'u' -> b := bm_unset bit !b
          | _ -> Buffer.add_string out (if bm_get bit !b then " 1" else " 0")) ops;
        Printf.printf "bm%s\n" (Buffer.contents out)
    | _ -> failwith ("pure: bad line: " ^ String.concat " " toks))

(* ---------- main driver ---------- *)
let sw_of t = match t with "ok" -> SwOk | "fail" -> SwFail | _ -> SwNoEffect
let b_ t = t <> "0"

let top_id t = match t with
  | T_parse -> "parse" | T_fan_init -> "faninit" | T_mount_list -> "mountlist" | T_watch -> "watch"
  | T_drop -> "drop" | T_load -> "load" | T_poll -> "poll" | T_read -> "read" | T_version -> "version"
  | T_overflow -> "overflow" | T_exec -> "exec" | T_write -> "write" | T_timeout -> "timeout"

let drv_main () =
  let args = ref [] and real = ref [] and mounted = ref [] in
  let fan = ref true and minfo = ref true and mount_ok = ref true and markfail = ref (-1) and load = ref true in
  let stat = ref (Some (N0, N0)) in
  let uid = ref N0 and gid = ref N0 and groups = ref 1 in
  let sg = ref SwOk and sgid = ref SwOk and suid = ref SwOk in
  let self = ref (n_of_string "4242") in
  let slots = ref [] in
  let reset () =
    args := []; real := []; mounted := []; fan := true; minfo := true; mount_ok := true; markfail := -1; load := true;
    stat := Some (N0, N0); uid := N0; gid := N0; groups := 1; sg := SwOk; sgid := SwOk; suid := SwOk;
    self := n_of_string "4242"; slots := [] in
  iter_lines (fun toks ->
    match toks with
    | "case" :: _ -> print_endline (String.concat " " toks); reset ()
    | "m_args" :: a -> args := List.map str_tok a
    | "m_real" :: l ->
        real := List.map (fun kv -> match String.split_on_char '=' kv with
                                    | [a; b] -> (str_tok a, str_tok b) | _ -> failwith "m_real") l
    | "m_mounted" :: l ->
        (* the mount table as the kernel writes it (MountParse.render_mounts), read back by the model of load_mountinfo *)
        mounted := parse_mounts (render_mounts (List.map (fun t -> { m_dev = chars_of_string "dev"; m_dir = str_tok t; m_rest = chars_of_string "type rw 0 0" }) l))
    | ["m_mounts_raw"; t] -> mounted := parse_mounts (str_tok t)
    | ["m_mounts_raw"] -> mounted := parse_mounts []
    | ["m_flags"; a; b; c; d; e] -> fan := b_ a; minfo := b_ b; mount_ok := b_ c; markfail := int_of_string d; load := b_ e
    | ["m_stat"; o; u; g] -> stat := (if o = "ok" then Some (n_of_string u, n_of_string g) else None)
    | ["m_cred"; u; g; n; a; b; c] ->
        uid := n_of_string u; gid := n_of_string g; groups := int_of_string n; sg := sw_of a; sgid := sw_of b; suid := sw_of c
    | ["m_self"; p] -> self := n_of_string p
    | ["m_afail"; _] -> ()   (* the k-th allocation of the implementation's main() fails: no counterpart in the model *)
    | ["m_slot"; po; rd; vers; ex; wr; ovf; pid; fd; eok; wok; tmo] ->
        let s = { s_poll = (match po with "0" -> PollEvent | "1" -> PollTimeout | "2" -> PollErr | _ -> PollHup);
                  s_read = (match rd with "0" -> ReadFull | "1" -> ReadShort | _ -> ReadFail);
                  s_ev = { ev_vers_ok = b_ vers; ev_exec = b_ ex; ev_write = b_ wr; ev_overflow = b_ ovf;
                           ev_pid = n_of_string pid; ev_fd = n_of_string fd };
                  s_exec_ok = b_ eok; s_write_ok = b_ wok;
                  s_timeout = (if tmo = "err" then None else Some (coqz_of_string tmo)) } in
        slots := !slots @ [s]
    | ["m_run"] ->
        let mf = !markfail in
        let env = { e_args = !args; e_realpath = !real; e_mounted = !mounted; e_fan_init_ok = !fan;
                    e_mountinfo_ok = !minfo; e_mount_ok = !mount_ok;
                    e_mark_ok = (fun n -> int_of_nat n <> mf);
                    e_stat = !stat; e_uid = !uid; e_gid = !gid; e_groups = nat_of_int !groups;
                    e_setgroups = !sg; e_setgid = !sgid; e_setuid = !suid; e_load_ok = !load;
                    e_self = !self; e_slots = !slots } in
        List.iter (fun o ->
          match o with
          | OFanInit -> print_endline "faninit"
          | OMount p -> Printf.printf "mount %s\n" (tok_str p)
          | OMark (ex, p) -> Printf.printf "mark %c %s\n" (if ex then 'e' else 'w') (tok_str p)
          | OStat p -> Printf.printf "stat %s\n" (tok_str p)
          | OSetgroups -> print_endline "setgroups"
          | OSetgid g -> Printf.printf "setgid %s\n" (string_of_n g)
          | OSetuid u -> Printf.printf "setuid %s\n" (string_of_n u)
          | OLoad (cfg, cpl, u, g, n) ->
              Printf.printf "load %s %d %s %s %d\n" (match cfg with Some c -> tok_str c | None -> "-")
                (int_of_nat cpl) (string_of_n u) (string_of_n g) (int_of_nat n)
          | OPoll ms -> Printf.printf "poll %s\n" (string_of_coqz ms)
          | ORead -> print_endline "read"
          | OExec (p, f) -> Printf.printf "exec %s %s\n" (string_of_n p) (string_of_n f)
          | OWrite (p, f) -> Printf.printf "write %s %s\n" (string_of_n p) (string_of_n f)
          | OClose f -> Printf.printf "close %s\n" (string_of_n f)
          | OTimeout -> print_endline "timeout"
          | OExit (c, t) -> Printf.printf "exit %d %s\n" (int_of_nat c) (match t with Some t -> top_id t | None -> "-")
          | OEnd -> print_endline "end") (main env)
    | _ -> failwith ("main: bad line: " ^ String.concat " " toks))

(* ---------- configuration driver ---------- *)
(* value tokens: n | s<hex> | i<int> | f | b0 | b1 | t[k<hex>=<value>;...]  (table entries separated by ';', key 'o' = non-string key) *)
let rec parse_value (t : string) : value =
  match t.[0] with
  | 'n' -> VNil
  | 's' -> VStr (str_tok (String.sub t 1 (String.length t - 1)))
  | 'i' -> VInt (coqz_of_string (String.sub t 1 (String.length t - 1)))
  | 'f' -> VFloat
  | 'b' -> VBool (t = "b1")
  | 't' ->
      let body = String.sub t 2 (String.length t - 3) in
      let ents = if body = "" then [] else String.split_on_char ';' body in
      VTab (List.map (fun e ->
        match String.index_opt e '=' with
        | Some i ->
            let k = String.sub e 0 i and v = String.sub e (i + 1) (String.length e - i - 1) in
            ((if k = "o" then KOther else KStr (str_tok (String.sub k 1 (String.length k - 1)))), parse_value v)
        | None -> failwith "table entry") ents)
  | _ -> failwith ("value token " ^ t)

let parse_stmt (t : string) : stmt =
  match String.split_on_char ':' t with
  | ["g"; name; v] -> SGlobal (str_tok name, parse_value v)
  | ["k"; tab; key; v] -> SKey (str_tok tab, (if key = "o" then KOther else KStr (str_tok key)), parse_value v)
  | _ -> failwith ("stmt token " ^ t)

let drv_cfg () =
  let universe = ref [] and stmts = ref [] in
  iter_lines (fun toks ->
    match toks with
    | "case" :: _ -> print_endline (String.concat " " toks); stmts := []
    | "cfguniverse" :: u -> universe := List.map str_tok u
    | "cfgstmts" :: l -> stmts := List.map parse_stmt l
    | "cfglua" :: _ | ["cfgnone"] | ["cfgstatic"] ->
        (* cfgstatic: the table translated from src/config-static.c (the build without Lua) *)
        (match (if toks = ["cfgstatic"] then Some static_config else klunok_load !stmts) with
         | None -> print_endline "cfg error"
         | Some c ->
             let set name l =
               Printf.printf " %s=%s" name
                 (String.concat "" (List.map (fun u -> if List.exists (fun x -> x = u) l then "1" else "0") !universe)) in
             let opt name v = Printf.printf " %s=%s" name (match v with Some x -> tok_str x | None -> "-") in
             print_string "cfg";
             set "editors" c.fc_editors; set "project_roots" c.fc_project_roots; set "project_parents" c.fc_project_parents;
             set "history" c.fc_history; set "excluded" c.fc_excluded; set "included" c.fc_included; set "cluded" c.fc_cluded;
             opt "store" c.fc_store_root; opt "pstore" c.fc_project_store_root; opt "unstable" c.fc_unstable_root;
             opt "queue" c.fc_queue_path; opt "journal" c.fc_journal_path; opt "jpat" c.fc_journal_pattern;
             opt "vpat" c.fc_version_pattern; opt "offsets" c.fc_offset_root;
             Printf.printf " deb=%s plen=%s maxpid=%s elf=%s qguess=%s" (string_of_coqz c.fc_debounce)
               (string_of_coqz c.fc_path_length_guess) (string_of_coqz c.fc_max_pid_guess) (string_of_coqz c.fc_elf_guess)
               (string_of_coqz c.fc_queue_size_guess);
             List.iteri (fun i v -> opt (Printf.sprintf "ev%d" i) v) c.fc_ev;
             print_newline ())
    | _ -> failwith ("cfg: bad line: " ^ String.concat " " toks))
